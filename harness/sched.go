//go:build verif

package harness

import (
	"crypto/sha256"
	"encoding/hex"
	"fmt"
	"sort"
	"strings"
	"testing/synctest"
	"time"
)

// Stim is one environment choice. A schedule is a list of them; everything the nodes do
// in between is their own business.
type Stim struct {
	Op   string `json:"op"`
	N    string `json:"n,omitempty"`    // node the stimulus is about
	From string `json:"from,omitempty"` // rpc selection
	To   string `json:"to,omitempty"`
	Kind string `json:"kind,omitempty"` // rv | ae | is | "" (any)
	Sel  string `json:"sel,omitempty"`  // last (default) | first
	Term int    `json:"term,omitempty"` // optional filter (0 = any)
	Pre  *bool  `json:"pre,omitempty"`  // optional filter on RequestVote.Prevote
	Idx  int    `json:"idx,omitempty"`  // optional filter on InstallSnapshot.LastIncludedIndex (0 = any)
	Off0 bool   `json:"off0,omitempty"` // InstallSnapshot: only requests that start at offset 0
	D    int    `json:"d,omitempty"`    // milliseconds
	Val  string `json:"val,omitempty"`
	K    int    `json:"k,omitempty"`     // submit: operation type; armcrash: delta
	TO   int    `json:"to_ms,omitempty"` // client time-out, ms
	ID   string `json:"id,omitempty"`    // membership target
	V    bool   `json:"v,omitempty"`     // voter flag
	W    string `json:"w,omitempty"`     // before | after ; gate kind
	On   bool   `json:"on,omitempty"`
	// inject / fakereply: a crafted request handed to node N's handler as if sent by From, or a
	// crafted response to a request N has in flight to To
	Req *WireReq `json:"req,omitempty"`
	Exp *HExp    `json:"exp,omitempty"` // what Raft.tla's handler operator predicts for an injected request
}

// HExp is the specification's prediction for one handler call: reply and post-state projection.
type HExp struct {
	Ok     bool `json:"ok"`
	Hint   int  `json:"hint"`
	RTerm  int  `json:"rterm"`
	Last   int  `json:"last"`
	LastT  int  `json:"lastt"`
	Commit int  `json:"commit"`
	// RequestVote cases: durable term / vote after the call
	DTerm int    `json:"dterm"`
	DVote string `json:"dvote"`
}

// WireReq carries the fields of any of the three requests / responses (unused ones zero).
type WireReq struct {
	Term   int       `json:"term"`
	Prev   int       `json:"prev,omitempty"`
	PrevT  int       `json:"prevt,omitempty"`
	Commit int       `json:"commit,omitempty"`
	Ents   []PrepEnt `json:"ents,omitempty"`
	Last   int       `json:"last,omitempty"`
	LastT  int       `json:"lastt,omitempty"`
	Pre    bool      `json:"pre,omitempty"`
	Index  int       `json:"index,omitempty"` // snapshot label
	ITerm  int       `json:"iterm,omitempty"`
	Off    int       `json:"off,omitempty"`
	Fill   string    `json:"fill,omitempty"` // snapshot chunk = bytes Lo..Hi of the canonical snapshot named Fill
	Lo     int       `json:"lo,omitempty"`
	Hi     int       `json:"hi,omitempty"`
	Done   bool      `json:"done,omitempty"`
	Ok     bool      `json:"ok,omitempty"`   // response: Success / VoteGranted
	Hint   int       `json:"hint,omitempty"` // response: conflict index
}

// CanonSnap describes a snapshot by its label and the operations it contains.
type CanonSnap struct {
	Index int       `json:"index"`
	Term  int       `json:"term"`
	Ops   []PrepEnt `json:"ops"`
	Pad   int       `json:"pad,omitempty"`
}

// PrepEnt is a log entry of a prepared log or a crafted request: k 0 noop, 1 op, 2 cfg.
type PrepEnt struct {
	I int    `json:"i"`
	T int    `json:"t"`
	K int    `json:"k"`
	V string `json:"v,omitempty"`
}

// Prep is the durable state a node is constructed over (written through the public storage
// API before NewRaft): term/vote, log entries, an optional snapshot and compaction boundary.
type Prep struct {
	Term    int       `json:"term"`
	Vote    string    `json:"vote,omitempty"`
	Ents    []PrepEnt `json:"ents,omitempty"`
	SnapIdx int       `json:"snap_idx,omitempty"` // snapshot labelled with this index (content = its ops) + log compacted there
	SnapPad int       `json:"snap_pad,omitempty"`
}

// Scenario describes one bubble run.
type Scenario struct {
	Name         string                `json:"name"`
	Voters       []string              `json:"voters"`
	NonVoters    []string              `json:"nonvoters,omitempty"` // bootstrapped members that... (unused: Bootstrap makes everyone a voter)
	Extra        []string              `json:"extra,omitempty"`     // started with empty configuration, to be added later
	Controlled   bool                  `json:"controlled"`
	Auto         bool                  `json:"auto"`
	SnapEvery    int                   `json:"snap_every,omitempty"`
	SnapPad      int                   `json:"snap_pad,omitempty"`
	Stimuli      []Stim                `json:"stimuli,omitempty"`
	Heal         bool                  `json:"heal"`
	HealET       int                   `json:"heal_et,omitempty"` // heal bound in election timeouts (default 60)
	Random       *RandCfg              `json:"random,omitempty"`
	Spec         []SpecStep            `json:"spec,omitempty"` // a TLC behaviour of Raft.tla to be replayed step by step
	StopOnDrift  bool                  `json:"stop_on_drift,omitempty"`
	Family       string                `json:"family,omitempty"`
	Attack       string                `json:"attack,omitempty"`         // weakening whose TLC counterexample this schedule is
	Prep         map[string]*Prep      `json:"prep,omitempty"`           // nodes constructed over prepared storage instead of Bootstrap
	Canon        map[string]*CanonSnap `json:"canon,omitempty"`          // snapshots "a sender had", for injected InstallSnapshot chunks
	HealKeepDown []string              `json:"heal_keep_down,omitempty"` // members that stay down in the fault-free period (a majority still runs)
	NoStart      []string              `json:"no_start,omitempty"`       // created but not started by the skeleton
	NoBootstrap  []string              `json:"no_bootstrap,omitempty"`   // voters whose Bootstrap call is left to the program
	LatencyUS    int                   `json:"latency_us,omitempty"`
	JitterUS     int                   `json:"jitter_us,omitempty"`
	MemberTOMS   int                   `json:"member_to_ms,omitempty"` // spec replay: time-out of membership calls; virtual time passes before each one so that earlier futures have timed out
	SnapWindow   bool                  `json:"snap_window,omitempty"`  // replay of Raft.tla with Env:SnapWindow: takeSnapshot parks after publication
	TickMS       int                   `json:"tick_ms,omitempty"`      // timed replay (RaftTimed.tla): virtual time per Tick
	ETMS         int                   `json:"et_ms,omitempty"`        // election timeout (default 300)
	LeaseMS      int                   `json:"lease_ms,omitempty"`     // lease duration (default 100)
}

type Runner struct {
	c       *Cluster
	sc      *Scenario
	skipped int
	done    int
	drift   int
	matched int
	hcases  int
	rpcMap  map[string]*RPC // specification message -> real rpc (asynchronous replay)
	ops     map[int]bool
}

func (r *Runner) match(s *Stim, phase int) *RPC {
	var cands []*RPC
	for _, p := range r.c.net.Pending() {
		if p.Phase != phase {
			continue
		}
		if s.Kind != "" && p.Kind != s.Kind {
			continue
		}
		if s.From != "" && p.From != s.From {
			continue
		}
		if s.To != "" && p.To != s.To {
			continue
		}
		if s.Term != 0 {
			t := 0
			switch p.Kind {
			case "ae":
				t = int(p.AE.Term)
			case "rv":
				t = int(p.RV.Term)
			case "is":
				t = int(p.IS.Term)
			}
			if t != s.Term {
				continue
			}
		}
		if s.Pre != nil && (p.Kind != "rv" || p.RV.Prevote != *s.Pre) {
			continue
		}
		if s.Idx != 0 && (p.Kind != "is" || int(p.IS.LastIncludedIndex) != s.Idx) {
			continue
		}
		if s.Off0 && (p.Kind != "is" || p.IS.Offset != 0) {
			continue
		}
		cands = append(cands, p)
	}
	if len(cands) == 0 {
		return nil
	}
	sort.Slice(cands, func(i, j int) bool { return cands[i].ID < cands[j].ID })
	if s.Sel == "first" {
		return cands[0]
	}
	return cands[len(cands)-1]
}

// Do executes one stimulus; it reports false when the stimulus had nothing to act on.
func (r *Runner) Do(s Stim) bool {
	c := r.c
	c.rec.Emit("step", Ev{"s": s})
	ok := r.do(s)
	if !ok {
		r.skipped++
		c.rec.Emit("skipped", Ev{"s": s})
	}
	r.done++
	return ok
}

func (r *Runner) do(s Stim) bool {
	c := r.c
	n := c.node(s.N)
	to := time.Duration(s.TO) * time.Millisecond
	if to == 0 {
		to = 2 * time.Second
	}
	switch s.Op {
	case "adv":
		c.Advance(time.Duration(s.D) * time.Millisecond)
	case "fire":
		if n == nil {
			return false
		}
		return c.Fire(n)
	case "hb":
		// advance until node n has put a new replication request on the wire
		if n == nil || !n.running {
			return false
		}
		mark := c.net.seqNow()
		for i := 0; i < 12; i++ {
			for _, p := range c.net.Pending() {
				if p.ID > mark && p.From == s.N && (p.Kind == "ae" || p.Kind == "is") {
					return true
				}
			}
			time.Sleep(5 * time.Millisecond)
			c.Settle()
		}
		return false
	case "deliver":
		p := r.match(&s, 0)
		if p == nil {
			return false
		}
		c.net.Deliver(p)
	case "reply":
		p := r.match(&s, 2)
		if p == nil {
			return false
		}
		c.net.Reply(p)
	case "xchg":
		p := r.match(&s, 0)
		if p == nil {
			return false
		}
		c.net.Deliver(p)
		c.net.Reply(p)
	case "dup":
		p := r.match(&s, 0)
		if p == nil {
			return false
		}
		c.net.Dup(p)
	case "dropreq":
		p := r.match(&s, 0)
		if p == nil {
			return false
		}
		c.net.Drop(p)
	case "dropresp":
		p := r.match(&s, 2)
		if p == nil {
			return false
		}
		c.net.Drop(p)
	case "dropall":
		any := false
		for {
			p := r.match(&s, 0)
			if p == nil {
				break
			}
			c.net.fail(p, "drop_req")
			any = true
		}
		c.Settle()
		return any
	case "submit":
		if n == nil {
			return false
		}
		c.Submit(n, s.Val, s.K, to)
		c.Settle()
	case "add", "remove":
		if n == nil {
			return false
		}
		c.Member(n, s.Op == "add", s.ID, s.V, to)
		c.Settle()
	case "crash":
		if n == nil || !n.running {
			return false
		}
		c.Crash(n)
		c.Settle()
	case "armcrash":
		if n == nil || !n.running {
			return false
		}
		c.ArmCrash(n, s.K, s.W)
	case "restart":
		if n == nil || n.running {
			return false
		}
		c.Restart(s.N)
		c.Settle()
	case "stop":
		if n == nil || !n.running {
			return false
		}
		c.StopNode(n)
		c.Settle()
	case "gate":
		if n == nil {
			return false
		}
		n.fsm.Arm(s.W)
	case "release":
		if n == nil {
			return false
		}
		n.fsm.Release(s.W)
		c.Settle()
	case "nolimit":
		// delayed messages must survive: no overflow drops from here on
		c.net.maxPerLink = 0
	case "snapnow":
		if n == nil {
			return false
		}
		n.fsm.mu.Lock()
		n.fsm.snapNow = true
		n.fsm.mu.Unlock()
	case "auto":
		c.net.SetAuto(s.On)
		c.Settle()
	case "block":
		c.net.Block(s.From, s.To, true)
	case "unblock":
		c.net.Block(s.From, s.To, false)
	case "healnet":
		c.net.Heal()
	case "controlled":
		c.SetControlled(s.On)
		c.Settle()
	case "hold":
		c.net.Hold(orStar(s.From), orStar(s.To), true)
	case "unhold":
		c.net.Hold(orStar(s.From), orStar(s.To), false)
	case "gateonly":
		// from now on only the listed node's timer is gated; everybody else runs free
		c.mu.Lock()
		if c.gatedOnly == nil {
			c.gatedOnly = map[string]bool{}
		}
		c.gatedOnly[s.N] = true
		var chs []chan struct{}
		for _, o := range c.nodes {
			if o.parked && !c.gatedOnly[o.id] && !o.gateOpen {
				chs = append(chs, o.gateCh)
				o.gateCh = make(chan struct{})
			}
		}
		c.mu.Unlock()
		for _, ch := range chs {
			close(ch)
		}
		c.Settle()
	case "healthy":
		// brackets a period in which leader s.N is kept in prompt contact with majority s.Val ("a,c")
		c.rec.Emit("healthy", Ev{"on": s.On, "leader": s.N, "maj": strings.Split(s.Val, ",")})
	case "inject":
		if n == nil || !n.running || s.Req == nil {
			return false
		}
		rp := c.net.Inject(n, s.Kind, s.From, s.Req)
		if s.Exp != nil && rp != nil && s.Kind == "ae" {
			// conformance with the specification's handler operator (never a verdict)
			got := c.project(n)
			x := s.Exp
			if rp.AEr.Success != x.Ok || int(rp.AEr.Index) != x.Hint || int(rp.AEr.Term) != x.RTerm || got.Last != x.Last || got.LastT != x.LastT || got.Commit != x.Commit {
				r.drift++
				c.rec.Emit("drift", Ev{"k": r.done, "a": "HandleAE", "n": n.id, "p": s.From, "applied": true,
					"diffs": []string{fmt.Sprintf("spec=%+v code=reply{ok:%v hint:%d term:%d} last=%d lastt=%d commit=%d", *x, rp.AEr.Success, rp.AEr.Index, rp.AEr.Term, got.Last, got.LastT, got.Commit)}})
			} else {
				r.matched++
			}
			r.hcases++
		}
		if s.Exp != nil && rp != nil && s.Kind == "rv" {
			x := s.Exp
			c.mu.Lock()
			pt, pv := n.pterm, n.pvote
			c.mu.Unlock()
			if rp.RVr.VoteGranted != x.Ok || int(rp.RVr.Term) != x.RTerm || pt != x.DTerm || pv != x.DVote {
				r.drift++
				c.rec.Emit("drift", Ev{"k": r.done, "a": "HandleRV", "n": n.id, "p": s.From, "applied": true,
					"diffs": []string{fmt.Sprintf("spec={ok:%v rterm:%d dterm:%d dvote:%q} code={ok:%v rterm:%d dterm:%d dvote:%q}", x.Ok, x.RTerm, x.DTerm, x.DVote, rp.RVr.VoteGranted, rp.RVr.Term, pt, pv)}})
			} else {
				r.matched++
			}
			r.hcases++
		}
	case "fakereply":
		p := r.match(&Stim{Kind: s.Kind, From: s.N, To: s.To}, 0)
		if p == nil || s.Req == nil {
			return false
		}
		c.net.FakeReply(p, s.Req)
	case "api":
		return r.api(s)
	case "mark":
		c.rec.Emit("mark", Ev{"what": s.Val, "node": s.N, "m": s.ID})
	default:
		return false
	}
	return true
}

// api performs one public API call that is not a submission, under recover.
func (r *Runner) api(s Stim) (ok bool) {
	c := r.c
	n := c.node(s.N)
	if n == nil || n.r == nil {
		return false
	}
	c.mu.Lock()
	c.clientSeq++
	op := c.clientSeq
	c.mu.Unlock()
	c.rec.Emit("invoke", Ev{"op": op, "node": n.id, "inc": n.inc, "call": s.Val, "timeout": 0})
	res := "ok"
	defer func() {
		if p := recover(); p != nil {
			c.rec.Emit("panic", Ev{"op": op, "node": n.id, "inc": n.inc, "msg": fmt.Sprint(p), "call": s.Val})
			res = "panic"
		}
		c.rec.Emit("return", Ev{"op": op, "node": n.id, "inc": n.inc, "call": s.Val, "res": res})
		c.Settle()
		ok = true
	}()
	switch s.Val {
	case "status_string":
		_ = n.r.Status().State.String()
	case "cfg_string":
		cfg := n.r.Configuration()
		_ = cfg.String()
	case "bootstrap":
		m := map[string]string{}
		for _, id := range r.sc.Voters {
			m[id] = id
		}
		if s.ID != "" {
			m = map[string]string{s.ID: s.ID}
		}
		if err := n.r.Bootstrap(m); err != nil {
			res = "error"
		}
	case "start":
		if err := n.r.Start(); err != nil {
			res = "error"
		} else {
			c.mu.Lock()
			n.running = true
			c.mu.Unlock()
		}
	case "restart":
		if err := n.r.Restart(); err != nil {
			res = "error"
		} else {
			c.mu.Lock()
			n.running = true
			c.mu.Unlock()
		}
	case "stop":
		c.openGate(n)
		n.fsm.ReleaseAll()
		// (the node's own requests that are still in flight stay in flight: their responses arrive
		// at a stopped node later, in the automatic phase that ends every API scenario)
		n.r.Stop()
		c.mu.Lock()
		n.running = false
		c.mu.Unlock()
	default:
		res = "unknown"
	}
	return true
}

func orStar(x string) string {
	if x == "" {
		return "*"
	}
	return x
}

func contains(l []string, x string) bool {
	for _, y := range l {
		if x == y {
			return true
		}
	}
	return false
}

func (nt *Net) seqNow() int {
	nt.c.mu.Lock()
	defer nt.c.mu.Unlock()
	return nt.seq
}

// ---- scenario skeleton --------------------------------------------------------------------

func (r *Runner) setup() {
	c, sc := r.c, r.sc
	c.SnapEvery, c.SnapPad = sc.SnapEvery, sc.SnapPad
	c.controlled = sc.Controlled
	c.net.auto = sc.Auto
	c.net.latency = time.Duration(sc.LatencyUS) * time.Microsecond
	c.net.jitter = time.Duration(sc.JitterUS) * time.Microsecond
	members := append([]string{}, sc.Voters...)
	for name, cs := range sc.Canon {
		var ops []fsmOp
		for _, o := range cs.Ops {
			ops = append(ops, fsmOp{o.I, o.T, o.V})
		}
		b := canonicalSnapshot(ops, cs.Pad)
		c.net.canon[name] = b
		sum := sha256.Sum256(b)
		c.rec.Emit("canon", Ev{"name": name, "index": cs.Index, "term": cs.Term, "size": len(b), "h": hex.EncodeToString(sum[:6])})
	}
	for _, id := range sc.Voters {
		if pr := sc.Prep[id]; pr != nil {
			c.AddPrepared(id, pr, members)
			continue
		}
		n := c.AddNode(id)
		if n.created && !contains(sc.NoBootstrap, id) {
			c.Bootstrap(n, members)
		}
	}
	for _, id := range sc.Extra {
		c.AddNode(id)
	}
	for _, id := range append(append([]string{}, sc.Voters...), sc.Extra...) {
		if !contains(sc.NoStart, id) {
			c.Start(c.node(id))
		}
	}
	c.Settle()
}

// heal is the fault-free period every scenario ends with: timers free, prompt reliable
// network, all gates open, every member restarted. C15 is observed here.
func (r *Runner) heal() {
	c, sc := r.c, r.sc
	bound := sc.HealET
	if bound == 0 {
		bound = 60
	}
	c.rec.Emit("heal", Ev{"bound_et": bound})
	c.mu.Lock()
	ids := make([]string, 0, len(c.nodes))
	for id, n := range c.nodes {
		n.crashAt = 0
		ids = append(ids, id)
	}
	c.mu.Unlock()
	sort.Strings(ids)
	for _, id := range ids {
		c.node(id).fsm.ReleaseAll()
	}
	c.net.Heal()
	c.net.latency, c.net.jitter = 0, 0
	c.mu.Lock()
	c.net.hold = map[[2]string]bool{}
	c.gatedOnly = nil
	c.mu.Unlock()
	c.net.SetAuto(true)
	c.SetControlled(false)
	for _, id := range ids {
		// a node on which Stop has returned (and nothing was started since) reports Shutdown
		if n := c.node(id); n.created && !n.running && !n.ghost.Load() && n.r != nil {
			c.rec.Emit("stopcheck", Ev{"node": id, "inc": n.inc, "state": int(n.r.Status().State)})
		}
	}
	for _, id := range sc.HealKeepDown {
		// "the others stay down for good": a member that is to stay down and still runs goes down now
		if n := c.node(id); n != nil && n.running {
			r.Do(Stim{Op: "crash", N: id})
		}
	}
	for _, id := range ids {
		if n := c.node(id); !n.running && !contains(sc.HealKeepDown, id) {
			c.Restart(id)
		}
	}
	c.Settle()
	begin := time.Now()
	probe := 0
	probed := false
	conv := "no"
	// The property's bound is `bound' election timeouts; a scenario that misses it is only
	// reported if it also misses four times the bound (unlucky timer draws are not defects).
	for _, lim := range []int{bound, 4 * bound} {
		deadline := begin.Add(time.Duration(lim) * c.ET)
		for time.Now().Before(deadline) {
			time.Sleep(c.HB)
			synctest.Wait()
			c.Observe()
			var leaders []*Node
			for _, id := range ids {
				if n := c.node(id); n.running && n.r.Status().State == 0 {
					leaders = append(leaders, n)
				}
			}
			if len(leaders) != 1 {
				continue
			}
			if !probed {
				// once there is a single leader, give it one fresh operation to commit
				if time.Since(begin) > 3*c.ET {
					probe = c.Submit(leaders[0], "probe", 0, time.Duration(4*bound)*c.ET)
					probed = true
					c.rec.Emit("probe", Ev{"op": probe, "node": leaders[0].id})
				}
				continue
			}
			// stop once every running member has caught up with the leader
			if time.Since(begin) > 6*c.ET && r.converged(leaders[0], ids) {
				if lim == bound {
					conv = "B"
				} else {
					conv = "4B"
				}
				break
			}
		}
		if conv != "no" {
			break
		}
	}
	c.Settle()
	// final dump: what every running member's state machine holds
	for _, id := range ids {
		n := c.node(id)
		if !n.running || !n.created {
			c.rec.Emit("final", Ev{"node": id, "running": false, "inc": n.inc, "role": -1, "term": 0, "commit": 0, "applied": 0, "content": []int{}, "cfg": cfgEv(nil)})
			continue
		}
		st := n.r.Status()
		cfg := n.r.Configuration()
		n.fsm.mu.Lock()
		content := n.fsm.indices()
		n.fsm.mu.Unlock()
		c.rec.Emit("final", Ev{"node": id, "inc": n.inc, "running": true, "role": int(st.State), "term": int(st.Term), "commit": int(st.CommitIndex),
			"applied": int(st.LastApplied), "content": content, "cfg": cfgEv(&cfg)})
	}
	c.rec.Emit("heal_done", Ev{"probe": probe, "conv": conv, "et": int(time.Since(begin) / c.ET)})
}

// converged: the probe was applied by the leader and every running member of the leader's
// configuration holds the same applied sequence.
func (r *Runner) converged(leader *Node, ids []string) bool {
	c := r.c
	cfg := leader.r.Configuration()
	leader.fsm.mu.Lock()
	want := fmt.Sprint(leader.fsm.ops)
	hasProbe := false
	for _, o := range leader.fsm.ops {
		if o.V == "probe" {
			hasProbe = true
		}
	}
	leader.fsm.mu.Unlock()
	if !hasProbe {
		return false
	}
	for _, id := range ids {
		n := c.node(id)
		if _, member := cfg.Members[id]; !member || !n.running {
			continue
		}
		n.fsm.mu.Lock()
		got := fmt.Sprint(n.fsm.ops)
		n.fsm.mu.Unlock()
		if got != want {
			return false
		}
	}
	return true
}

// Run executes the scenario inside the current bubble.
func (r *Runner) Run() {
	c, sc := r.c, r.sc
	c.timed = sc.TickMS > 0
	r.setup()
	if c.timed {
		// RaftTimed.tla's replay configurations start from an idle cluster (InitAge = E, every
		// election ticker expired): two election timeouts pass before the first step
		c.Advance(2 * c.ET)
		c.Settle()
	}
	for _, s := range sc.Stimuli {
		r.Do(s)
	}
	for k, st := range sc.Spec {
		r.specStep(k, st)
		if r.drift > 0 && sc.StopOnDrift {
			break
		}
	}
	if len(sc.Spec) > 0 || r.hcases > 0 {
		c.rec.Emit("spec_done", Ev{"steps": len(sc.Spec) + r.hcases, "matched": r.matched, "drift": r.drift})
	}
	if sc.Random != nil {
		r.random(sc.Random)
	}
	if sc.Heal {
		r.heal()
	}
	c.rec.Emit("end", Ev{"steps": r.done, "skipped": r.skipped})
	c.Shutdown()
	c.rec.Emit("closed", Ev{})
}
