// storedrv executes a program of storage operations on a directory through the library's
// public storage API, printing begin/done markers, or reopens a directory and prints what
// the storages recover. The parent (vlib/storage.py) kills it with SIGKILL at every storage
// system call (strace fault injection) and hands the resulting histories to TLC.
package main

import (
	"bufio"
	"crypto/sha256"
	"encoding/hex"
	"encoding/json"
	"fmt"
	"io"
	"os"
	"runtime"
	"strings"

	"github.com/jmsadair/raft"
)

type Ent struct {
	I int `json:"i"`
	T int `json:"t"`
	K int `json:"k"`
	N int `json:"n"` // payload size; payload bytes are derived from (i, t, n)
}

type Op struct {
	Op   string `json:"op"` // open append truncate compact discard close | set | snap_write snap_discard | snapfile
	Ents []Ent  `json:"ents,omitempty"`
	I    int    `json:"i"`
	T    int    `json:"t"`
	Vote string `json:"vote"`
	Size int    `json:"size"`
	Cfg  string `json:"cfg"`
}

func payload(i, t, n int) []byte {
	b := make([]byte, n)
	for j := range b {
		b[j] = byte('a' + (i*7+t*3+j)%26)
	}
	return b
}

func snapBytes(idx, size int) []byte {
	b := make([]byte, size)
	for j := range b {
		b[j] = byte('A' + (idx*5+j)%26)
	}
	return b
}

func h(b []byte) string { s := sha256.Sum256(b); return hex.EncodeToString(s[:6]) }

var out = bufio.NewWriter(os.Stdout)

func say(format string, a ...any) {
	fmt.Fprintf(out, format+"\n", a...)
	out.Flush()
}

type state struct {
	dir   string
	log   raft.Log
	ss    raft.StateStorage
	snaps raft.SnapshotStorage
}

func (s *state) openLog() error {
	l, err := raft.NewLog(s.dir)
	if err != nil {
		return err
	}
	if err := l.Open(); err != nil {
		return err
	}
	if err := l.Replay(); err != nil {
		return err
	}
	s.log = l
	return nil
}

func (s *state) do(op Op) error {
	switch op.Op {
	case "open":
		return s.openLog()
	case "close":
		if s.log == nil {
			return nil
		}
		err := s.log.Close()
		s.log = nil
		return err
	case "append":
		es := make([]*raft.LogEntry, 0, len(op.Ents))
		for _, e := range op.Ents {
			es = append(es, raft.NewLogEntry(uint64(e.I), uint64(e.T), payload(e.I, e.T, e.N), raft.LogEntryType(e.K)))
		}
		if len(es) == 1 {
			return s.log.AppendEntry(es[0])
		}
		return s.log.AppendEntries(es)
	case "truncate":
		return s.log.Truncate(uint64(op.I))
	case "compact":
		return s.log.Compact(uint64(op.I))
	case "discard":
		return s.log.DiscardEntries(uint64(op.I), uint64(op.T))
	case "set":
		if s.ss == nil {
			ss, err := raft.NewStateStorage(s.dir)
			if err != nil {
				return err
			}
			s.ss = ss
		}
		return s.ss.SetState(uint64(op.T), op.Vote)
	case "snap_write", "snap_discard":
		if s.snaps == nil {
			sn, err := raft.NewSnapshotStorage(s.dir)
			if err != nil {
				return err
			}
			s.snaps = sn
		}
		f, err := s.snaps.NewSnapshotFile(uint64(op.I), uint64(op.T), []byte(op.Cfg))
		if err != nil {
			return err
		}
		b := snapBytes(op.I, op.Size)
		for len(b) > 0 {
			k := len(b)
			if k > 32*1024 {
				k = 32 * 1024
			}
			if _, err := f.Write(b[:k]); err != nil {
				return err
			}
			b = b[k:]
		}
		if op.Op == "snap_discard" {
			return f.Discard()
		}
		return f.Close()
	}
	return fmt.Errorf("unknown op %q", op.Op)
}

// dump prints what freshly constructed storages recover from the directory.
func dump(dir string) map[string]any {
	res := map[string]any{}
	// log
	func() {
		l, err := raft.NewLog(dir)
		if err == nil {
			err = l.Open()
		}
		if err == nil {
			err = l.Replay()
		}
		if err != nil {
			res["log_err"] = err.Error()
			return
		}
		base := l.LastIndex() - uint64(l.Size())
		ents := []map[string]any{}
		for i := base + 1; i <= l.LastIndex(); i++ {
			e, gerr := l.GetEntry(i)
			if gerr != nil {
				res["log_err"] = gerr.Error()
				return
			}
			ok := string(e.Data) == string(payload(int(e.Index), int(e.Term), len(e.Data)))
			ents = append(ents, map[string]any{"i": int(e.Index), "t": int(e.Term), "k": int(e.EntryType), "n": len(e.Data), "ok": ok})
		}
		res["base"], res["ents"] = int(base), ents
		l.Close()
	}()
	// term / vote
	func() {
		ss, err := raft.NewStateStorage(dir)
		if err != nil {
			res["state_err"] = err.Error()
			return
		}
		t, v, err := ss.State()
		if err != nil {
			res["state_err"] = err.Error()
			return
		}
		res["term"], res["vote"] = int(t), v
	}()
	// snapshots
	func() {
		sn, err := raft.NewSnapshotStorage(dir)
		if err != nil {
			res["snap_err"] = err.Error()
			return
		}
		f, err := sn.SnapshotFile()
		if err != nil {
			res["snap_err"] = err.Error()
			return
		}
		if f == nil {
			res["snap"] = map[string]any{"i": 0, "t": 0, "size": 0, "ok": true, "cfg": ""}
			return
		}
		md := f.Metadata()
		b, rerr := io.ReadAll(f)
		if rerr != nil {
			res["snap_err"] = rerr.Error()
			return
		}
		ok := string(b) == string(snapBytes(int(md.LastIncludedIndex), len(b)))
		res["snap"] = map[string]any{"i": int(md.LastIncludedIndex), "t": int(md.LastIncludedTerm), "size": len(b), "ok": ok, "cfg": string(md.Configuration)}
		f.Close()
	}()
	return res
}

func main() {
	// Every storage system call of the program is made by the main thread, so that the
	// parent's "kill at the N-th system call" (counted per thread by strace) is exact.
	runtime.LockOSThread()
	if len(os.Args) < 3 {
		fmt.Fprintln(os.Stderr, "usage: storedrv run <dir> <program.json> | reopen <dir> [program.json]")
		os.Exit(2)
	}
	dir := os.Args[2]
	switch os.Args[1] {
	case "run", "reopen":
		if os.Args[1] == "reopen" {
			b, _ := json.Marshal(dump(dir))
			say("RECOVERED %s", b)
			if len(os.Args) < 4 {
				return
			}
		}
		b, err := os.ReadFile(os.Args[3])
		if err != nil {
			fmt.Fprintln(os.Stderr, err)
			os.Exit(2)
		}
		var prog []Op
		if err := json.Unmarshal(b, &prog); err != nil {
			fmt.Fprintln(os.Stderr, err)
			os.Exit(2)
		}
		s := &state{dir: dir}
		for k, op := range prog {
			if op.Op == "append_next" {
				// one more entry at whatever index the (recovered) log continues with
				if s.log == nil {
					say("begin %d %s", k, `{"op":"skip"}`)
					say("done %d", k)
					continue
				}
				op = Op{Op: "append", Ents: []Ent{{I: int(s.log.NextIndex()), T: 9, K: 1, N: 7}}}
			}
			ob, _ := json.Marshal(op)
			say("begin %d %s", k, ob)
			if err := s.do(op); err != nil {
				say("error %d %s", k, strings.ReplaceAll(err.Error(), "\n", " "))
				continue
			}
			say("done %d", k)
		}
		say("finished")
		if os.Args[1] == "reopen" {
			b, _ := json.Marshal(dump(dir))
			say("RECOVERED %s", b)
		}
	}
}
