//go:build verif

package harness

import (
	"fmt"
	"math/rand"
	"sort"
	"strings"
)

// RandCfg parameterises the seeded adversary. Weights are relative.
type RandCfg struct {
	Seed    int64          `json:"seed"`
	Steps   int            `json:"steps"`
	W       map[string]int `json:"w,omitempty"`
	MaxDown int            `json:"max_down,omitempty"` // nodes that may be down at once (default: minority)
	Members bool           `json:"members,omitempty"`  // membership calls allowed
	S5Free  bool           `json:"s5free,omitempty"`   // never submit change k+1 before everybody applied change k
	Reads   bool           `json:"reads,omitempty"`
	Snaps   bool           `json:"snaps,omitempty"`
	Crashes bool           `json:"crashes,omitempty"`
	// C16: after the random prelude keep the leader and a majority in prompt contact for this
	// many adversary steps, during which only the remaining nodes are attacked
	HealthySteps int `json:"healthy_steps,omitempty"`
	// C17: time-driven adversary on an automatic network with bounded delay (the scenario's
	// latency + jitter) and free-running timers: partitions, reads and writes at random instants
	Timed bool `json:"timed,omitempty"`
}

var defaultW = map[string]int{
	"deliver": 30, "reply": 30, "drop": 4, "dup": 2, "fire": 6, "adv": 5, "hb": 8,
	"submit": 8, "read": 4, "crash": 2, "armcrash": 2, "restart": 5, "stop": 1,
	"member": 3, "gate": 2, "release": 4, "snapnow": 2, "oldfirst": 6,
}

// timed is the adversary for properties that hold under a timing assumption: messages are
// delivered by the automatic network within the scenario's delay bound (or dropped by a
// partition), clocks are the one virtual clock, timers run free.
func (r *Runner) timed(cfg *RandCfg) {
	c := r.c
	rng := rand.New(rand.NewSource(cfg.Seed))
	c.net.rng = rand.New(rand.NewSource(cfg.Seed + 1))
	all := append(append([]string{}, r.sc.Voters...), r.sc.Extra...)
	sort.Strings(all)
	valSeq := 0
	everLed := map[string]bool{}
	isolated := ""
	for step := 0; step < cfg.Steps; step++ {
		var up, leaders []string
		for _, id := range all {
			n := c.node(id)
			if n.running {
				up = append(up, id)
				if n.r.Status().State == 0 {
					leaders = append(leaders, id)
					everLed[id] = true
				}
			}
		}
		var led []string
		for id := range everLed {
			if c.node(id).running {
				led = append(led, id)
			}
		}
		sort.Strings(led)
		x := rng.Intn(100)
		switch {
		case x < 30:
			r.Do(Stim{Op: "adv", D: []int{5, 20, 50, 80, 120, 200, 330}[rng.Intn(7)]})
		case x < 50 && len(up) > 0:
			valSeq++
			target := up[rng.Intn(len(up))]
			if len(leaders) > 0 && rng.Intn(5) > 0 {
				target = leaders[rng.Intn(len(leaders))]
			}
			r.Do(Stim{Op: "submit", N: target, Val: fmt.Sprintf("w%d", valSeq), K: 0, TO: 1500})
		case x < 75 && len(up) > 0:
			valSeq++
			target := up[rng.Intn(len(up))]
			if len(led) > 0 && rng.Intn(4) > 0 {
				target = led[rng.Intn(len(led))]
			}
			kind := 2
			if cfg.Reads && rng.Intn(4) == 0 {
				kind = 1
			}
			r.Do(Stim{Op: "submit", N: target, Val: fmt.Sprintf("r%d", valSeq), K: kind, TO: 1000})
		case x < 85 && isolated == "" && len(up) > 1:
			// cut a node off (prefer a leader): both directions, or only what it sends / receives
			isolated = up[rng.Intn(len(up))]
			if len(leaders) > 0 && rng.Intn(3) > 0 {
				isolated = leaders[rng.Intn(len(leaders))]
			}
			mode := rng.Intn(3)
			for _, o := range all {
				if o == isolated {
					continue
				}
				// non-voters may stay connected to the isolated node
				if cfg.Members && rng.Intn(2) == 0 {
					cfg2 := c.node(isolated).r.Configuration()
					if _, m := cfg2.Members[o]; m && !cfg2.IsVoter[o] {
						continue
					}
				}
				if mode != 2 {
					r.Do(Stim{Op: "block", From: isolated, To: o})
				}
				if mode != 1 {
					r.Do(Stim{Op: "block", From: o, To: isolated})
				}
			}
		case x < 93 && isolated != "":
			r.Do(Stim{Op: "healnet"})
			isolated = ""
		case x < 96 && cfg.Crashes && len(up) > (len(r.sc.Voters)+1)/2:
			r.Do(Stim{Op: "crash", N: up[rng.Intn(len(up))]})
		case x < 100:
			for _, id := range all {
				if !c.node(id).running {
					r.Do(Stim{Op: "restart", N: id})
					break
				}
			}
		}
	}
	r.Do(Stim{Op: "healnet"})
}

func (r *Runner) random(cfg *RandCfg) {
	if cfg.Timed {
		r.timed(cfg)
		return
	}
	c := r.c
	rng := rand.New(rand.NewSource(cfg.Seed))
	w := map[string]int{}
	for k, v := range defaultW {
		w[k] = v
	}
	for k, v := range cfg.W {
		w[k] = v
	}
	if !cfg.Members {
		w["member"] = 0
	}
	if !cfg.Reads {
		w["read"] = 0
	}
	if !cfg.Snaps {
		w["snapnow"], w["gate"], w["release"] = 0, 0, 0
	}
	if !cfg.Crashes {
		w["crash"], w["armcrash"], w["stop"] = 0, 0, 0
	}
	all := append(append([]string{}, r.sc.Voters...), r.sc.Extra...)
	sort.Strings(all)
	maxDown := cfg.MaxDown
	if maxDown == 0 {
		maxDown = (len(r.sc.Voters) - 1) / 2
	}
	valSeq := 0
	gated := map[string]string{}
	for step := 0; step < cfg.Steps; step++ {
		var up, down, leaders []string
		for _, id := range all {
			n := c.node(id)
			if n.running {
				up = append(up, id)
				if n.r.Status().State == 0 {
					leaders = append(leaders, id)
				}
			} else {
				down = append(down, id)
			}
		}
		pend := c.net.Pending()
		var reqs, resps []*RPC
		for _, p := range pend {
			if p.Phase == 0 {
				reqs = append(reqs, p)
			} else if p.Phase == 2 {
				resps = append(resps, p)
			}
		}
		type choice struct {
			name string
			w    int
		}
		var cs []choice
		add := func(name string, cond bool) {
			if cond && w[name] > 0 {
				cs = append(cs, choice{name, w[name]})
			}
		}
		add("deliver", len(reqs) > 0)
		add("oldfirst", len(reqs) > 1)
		add("reply", len(resps) > 0)
		add("drop", len(reqs)+len(resps) > 0)
		add("dup", len(reqs) > 0)
		add("fire", len(up) > 0 && c.controlled)
		add("adv", true)
		add("hb", len(leaders) > 0)
		add("submit", len(up) > 0)
		add("read", len(up) > 0)
		add("crash", len(up) > 0 && len(down) < maxDown)
		add("armcrash", len(up) > 0 && len(down) < maxDown)
		add("stop", len(up) > 0 && len(down) < maxDown)
		add("restart", len(down) > 0)
		add("member", len(leaders) > 0)
		add("gate", len(up) > 0 && len(gated) < 2)
		add("release", len(gated) > 0)
		add("snapnow", len(up) > 0)
		tot := 0
		for _, ch := range cs {
			tot += ch.w
		}
		x := rng.Intn(tot)
		pick := ""
		for _, ch := range cs {
			if x < ch.w {
				pick = ch.name
				break
			}
			x -= ch.w
		}
		pickNode := func(l []string) string { return l[rng.Intn(len(l))] }
		sel := func(p *RPC) Stim {
			return Stim{Kind: p.Kind, From: p.From, To: p.To}
		}
		switch pick {
		case "deliver":
			// prefer recent requests
			p := reqs[len(reqs)-1-rng.Intn(min(len(reqs), 4))]
			s := sel(p)
			s.Op = "deliver"
			r.doRPC(s, p)
		case "oldfirst":
			p := reqs[rng.Intn(len(reqs))]
			s := sel(p)
			s.Op = "deliver"
			r.doRPC(s, p)
		case "reply":
			p := resps[rng.Intn(len(resps))]
			s := sel(p)
			s.Op = "reply"
			r.doRPC(s, p)
		case "drop":
			l := append(append([]*RPC{}, reqs...), resps...)
			p := l[rng.Intn(len(l))]
			s := sel(p)
			s.Op = "dropreq"
			if p.Phase == 2 {
				s.Op = "dropresp"
			}
			r.doRPC(s, p)
		case "dup":
			p := reqs[rng.Intn(len(reqs))]
			s := sel(p)
			s.Op = "dup"
			r.doRPC(s, p)
		case "fire":
			r.Do(Stim{Op: "fire", N: pickNode(up)})
		case "adv":
			r.Do(Stim{Op: "adv", D: []int{1, 10, 50, 100, 120, 350}[rng.Intn(6)]})
		case "hb":
			r.Do(Stim{Op: "hb", N: pickNode(leaders)})
		case "submit":
			valSeq++
			target := pickNode(up)
			if len(leaders) > 0 && rng.Intn(4) > 0 {
				target = pickNode(leaders)
			}
			r.Do(Stim{Op: "submit", N: target, Val: fmt.Sprintf("w%d", valSeq), K: 0, TO: []int{200, 1000, 5000}[rng.Intn(3)]})
		case "read":
			valSeq++
			target := pickNode(up)
			if len(leaders) > 0 && rng.Intn(4) > 0 {
				target = pickNode(leaders)
			}
			r.Do(Stim{Op: "submit", N: target, Val: fmt.Sprintf("r%d", valSeq), K: 1 + rng.Intn(2), TO: []int{200, 1000, 5000}[rng.Intn(3)]})
		case "crash":
			r.Do(Stim{Op: "crash", N: pickNode(up)})
		case "armcrash":
			r.Do(Stim{Op: "armcrash", N: pickNode(up), K: 1 + rng.Intn(3), W: []string{"before", "after"}[rng.Intn(2)]})
		case "stop":
			r.Do(Stim{Op: "stop", N: pickNode(up)})
		case "restart":
			r.Do(Stim{Op: "restart", N: pickNode(down)})
		case "member":
			r.randomMember(rng, cfg, pickNode(leaders), all)
		case "gate":
			id := pickNode(up)
			kind := []string{"apply", "snapshot", "restore"}[rng.Intn(3)]
			if _, ok := gated[id]; !ok {
				gated[id] = kind
				r.Do(Stim{Op: "gate", N: id, W: kind})
			}
		case "release":
			ids := make([]string, 0, len(gated))
			for id := range gated {
				ids = append(ids, id)
			}
			sort.Strings(ids)
			id := pickNode(ids)
			r.Do(Stim{Op: "release", N: id, W: gated[id]})
			delete(gated, id)
		case "snapnow":
			r.Do(Stim{Op: "snapnow", N: pickNode(up)})
		}
	}
	if cfg.HealthySteps > 0 {
		r.healthyPhase(rng, cfg, all)
	}
}

// healthyPhase: leader L and a majority M are put on a prompt automatic network with free
// timers; every link touching another node stays under the adversary, as do those nodes'
// timers, crashes and restarts. Health is established first (L still leads and M follows in
// L's term after two election timeouts) and only then announced to the monitor.
func (r *Runner) healthyPhase(rng *rand.Rand, cfg *RandCfg, all []string) {
	c := r.c
	var leader string
	var up []string
	for _, id := range all {
		n := c.node(id)
		if n.running {
			up = append(up, id)
			if n.r.Status().State == 0 {
				if leader != "" {
					return
				}
				leader = id
			}
		}
	}
	need := len(r.sc.Voters)/2 + 1
	if leader == "" || len(up) < need {
		return
	}
	maj := []string{leader}
	perm := rng.Perm(len(up))
	for _, k := range perm {
		if len(maj) < need && up[k] != leader {
			maj = append(maj, up[k])
		}
	}
	sort.Strings(maj)
	inMaj := map[string]bool{}
	for _, id := range maj {
		inMaj[id] = true
	}
	var minority []string
	for _, id := range all {
		if !inMaj[id] {
			minority = append(minority, id)
			r.Do(Stim{Op: "hold", From: id})
			r.Do(Stim{Op: "hold", To: id})
			r.Do(Stim{Op: "gateonly", N: id})
		}
	}
	if len(minority) == 0 {
		return
	}
	// crashes armed during the prelude must not hit the majority later
	c.mu.Lock()
	for _, id := range maj {
		c.nodes[id].crashAt = 0
	}
	c.mu.Unlock()
	r.Do(Stim{Op: "auto", On: true})
	r.Do(Stim{Op: "adv", D: 700})
	st := c.node(leader).r.Status()
	if st.State != 0 {
		return
	}
	for _, id := range maj {
		s2 := c.node(id).r.Status()
		if s2.Term != st.Term || (id != leader && s2.State != 1) {
			return
		}
	}
	// The period starts from a state in which no other node is already ahead of the leader
	// in term: a higher term acquired earlier (through a prevote that was won while the
	// cluster had no leader) deposes any leader on first contact and is not what the
	// property is about; terms that grow *during* the period are.
	for _, id := range minority {
		n := c.node(id)
		c.mu.Lock()
		pt := n.pterm
		c.mu.Unlock()
		if uint64(pt) > st.Term || (n.running && n.r.Status().Term > st.Term) {
			return
		}
	}
	r.Do(Stim{Op: "healthy", N: leader, Val: strings.Join(maj, ","), On: true})
	valSeq := 1000
	for step := 0; step < cfg.HealthySteps; step++ {
		var reqs, resps []*RPC
		for _, p := range c.net.Pending() {
			if p.Phase == 0 {
				reqs = append(reqs, p)
			} else if p.Phase == 2 {
				resps = append(resps, p)
			}
		}
		var upMin, downMin []string
		for _, id := range minority {
			if c.node(id).running {
				upMin = append(upMin, id)
			} else {
				downMin = append(downMin, id)
			}
		}
		x := rng.Intn(100)
		switch {
		case x < 25 && len(reqs) > 0:
			p := reqs[rng.Intn(len(reqs))]
			r.doRPC(Stim{Op: "deliver", Kind: p.Kind, From: p.From, To: p.To}, p)
		case x < 45 && len(resps) > 0:
			p := resps[rng.Intn(len(resps))]
			r.doRPC(Stim{Op: "reply", Kind: p.Kind, From: p.From, To: p.To}, p)
		case x < 50 && len(reqs) > 0:
			p := reqs[rng.Intn(len(reqs))]
			r.doRPC(Stim{Op: "dropreq", Kind: p.Kind, From: p.From, To: p.To}, p)
		case x < 64 && len(upMin) > 0:
			r.Do(Stim{Op: "fire", N: upMin[rng.Intn(len(upMin))]})
		case x < 70:
			// a vote request of a minority node that campaigned its way to a higher term earlier
			// (or is still in flight from before): nodes in contact with the leader ignore it
			lt := int(c.node(leader).r.Status().Term)
			rt := lt + rng.Intn(3)
			r.Do(Stim{Op: "inject", N: maj[rng.Intn(len(maj))], Kind: "rv", From: minority[rng.Intn(len(minority))],
				Req: &WireReq{Term: rt, Last: 1000, LastT: rt, Pre: rng.Intn(3) == 0}})
		case x < 80:
			r.Do(Stim{Op: "adv", D: []int{10, 50, 100, 350}[rng.Intn(4)]})
		case x < 84 && len(upMin) > 0 && cfg.Crashes:
			r.Do(Stim{Op: "crash", N: upMin[rng.Intn(len(upMin))]})
		case x < 90 && len(downMin) > 0:
			r.Do(Stim{Op: "restart", N: downMin[rng.Intn(len(downMin))]})
		case x < 95:
			valSeq++
			r.Do(Stim{Op: "submit", N: leader, Val: fmt.Sprintf("h%d", valSeq), K: 0, TO: 1000})
		default:
			r.Do(Stim{Op: "adv", D: 20})
		}
	}
	r.Do(Stim{Op: "adv", D: 100})
	r.Do(Stim{Op: "healthy", N: leader, Val: strings.Join(maj, ","), On: false})
}

// doRPC executes an rpc stimulus on the very rpc the adversary picked (the recorded
// stimulus carries kind/from/to so that a replay picks the corresponding one).
func (r *Runner) doRPC(s Stim, p *RPC) {
	c := r.c
	c.rec.Emit("step", Ev{"s": s, "rpc": p.ID})
	switch s.Op {
	case "deliver":
		c.net.Deliver(p)
	case "reply":
		c.net.Reply(p)
	case "dropreq", "dropresp":
		c.net.Drop(p)
	case "dup":
		c.net.Dup(p)
	}
	r.done++
}

func (r *Runner) randomMember(rng *rand.Rand, cfg *RandCfg, leader string, all []string) {
	c := r.c
	ln := c.node(leader)
	cur := ln.r.Configuration()
	if cfg.S5Free {
		// only when every running node has applied the latest configuration entry
		for _, id := range all {
			n := c.node(id)
			if !n.running {
				return
			}
			k := n.r.Configuration()
			if k.Index != cur.Index {
				return
			}
			st := n.r.Status()
			if st.LastApplied < cur.Index {
				return
			}
		}
	}
	var members, outsiders, nonvoters []string
	for _, id := range all {
		if _, ok := cur.Members[id]; ok {
			members = append(members, id)
			if !cur.IsVoter[id] {
				nonvoters = append(nonvoters, id)
			}
		} else {
			outsiders = append(outsiders, id)
		}
	}
	switch x := rng.Intn(10); {
	case x < 4 && len(outsiders) > 0:
		r.Do(Stim{Op: "add", N: leader, ID: outsiders[rng.Intn(len(outsiders))], V: rng.Intn(2) == 0, TO: 1000})
	case x < 6 && len(nonvoters) > 0:
		r.Do(Stim{Op: "add", N: leader, ID: nonvoters[rng.Intn(len(nonvoters))], V: true, TO: 1000})
	case len(members) > 1:
		r.Do(Stim{Op: "remove", N: leader, ID: members[rng.Intn(len(members))], TO: 1000})
	}
}
