//go:build verif

package harness

import (
	"fmt"
	"math/rand"
	"sort"
)

// RandCfg parameterises the seeded adversary. Weights are relative.
type RandCfg struct {
	Seed    int64          `json:"seed"`
	Steps   int            `json:"steps"`
	W       map[string]int `json:"w,omitempty"`
	MaxDown int            `json:"max_down,omitempty"` // nodes that may be down at once (default: minority)
	Members bool           `json:"members,omitempty"`  // membership calls allowed
	S5Free  bool           `json:"s5free,omitempty"`   // never submit change k+1 before everybody applied change k
	Reads   bool           `json:"reads,omitempty"`
	Snaps   bool           `json:"snaps,omitempty"`
	Crashes bool           `json:"crashes,omitempty"`
}

var defaultW = map[string]int{
	"deliver": 30, "reply": 30, "drop": 4, "dup": 2, "fire": 6, "adv": 5, "hb": 8,
	"submit": 8, "read": 4, "crash": 2, "armcrash": 2, "restart": 5, "stop": 1,
	"member": 3, "gate": 2, "release": 4, "snapnow": 2, "oldfirst": 6,
}

func (r *Runner) random(cfg *RandCfg) {
	c := r.c
	rng := rand.New(rand.NewSource(cfg.Seed))
	w := map[string]int{}
	for k, v := range defaultW {
		w[k] = v
	}
	for k, v := range cfg.W {
		w[k] = v
	}
	if !cfg.Members {
		w["member"] = 0
	}
	if !cfg.Reads {
		w["read"] = 0
	}
	if !cfg.Snaps {
		w["snapnow"], w["gate"], w["release"] = 0, 0, 0
	}
	if !cfg.Crashes {
		w["crash"], w["armcrash"], w["stop"] = 0, 0, 0
	}
	all := append(append([]string{}, r.sc.Voters...), r.sc.Extra...)
	sort.Strings(all)
	maxDown := cfg.MaxDown
	if maxDown == 0 {
		maxDown = (len(r.sc.Voters) - 1) / 2
	}
	valSeq := 0
	gated := map[string]string{}
	for step := 0; step < cfg.Steps; step++ {
		var up, down, leaders []string
		for _, id := range all {
			n := c.node(id)
			if n.running {
				up = append(up, id)
				if n.r.Status().State == 0 {
					leaders = append(leaders, id)
				}
			} else {
				down = append(down, id)
			}
		}
		pend := c.net.Pending()
		var reqs, resps []*RPC
		for _, p := range pend {
			if p.Phase == 0 {
				reqs = append(reqs, p)
			} else if p.Phase == 2 {
				resps = append(resps, p)
			}
		}
		type choice struct {
			name string
			w    int
		}
		var cs []choice
		add := func(name string, cond bool) {
			if cond && w[name] > 0 {
				cs = append(cs, choice{name, w[name]})
			}
		}
		add("deliver", len(reqs) > 0)
		add("oldfirst", len(reqs) > 1)
		add("reply", len(resps) > 0)
		add("drop", len(reqs)+len(resps) > 0)
		add("dup", len(reqs) > 0)
		add("fire", len(up) > 0 && c.controlled)
		add("adv", true)
		add("hb", len(leaders) > 0)
		add("submit", len(up) > 0)
		add("read", len(up) > 0)
		add("crash", len(up) > 0 && len(down) < maxDown)
		add("armcrash", len(up) > 0 && len(down) < maxDown)
		add("stop", len(up) > 0 && len(down) < maxDown)
		add("restart", len(down) > 0)
		add("member", len(leaders) > 0)
		add("gate", len(up) > 0 && len(gated) < 2)
		add("release", len(gated) > 0)
		add("snapnow", len(up) > 0)
		tot := 0
		for _, ch := range cs {
			tot += ch.w
		}
		x := rng.Intn(tot)
		pick := ""
		for _, ch := range cs {
			if x < ch.w {
				pick = ch.name
				break
			}
			x -= ch.w
		}
		pickNode := func(l []string) string { return l[rng.Intn(len(l))] }
		sel := func(p *RPC) Stim {
			return Stim{Kind: p.Kind, From: p.From, To: p.To}
		}
		switch pick {
		case "deliver":
			// prefer recent requests
			p := reqs[len(reqs)-1-rng.Intn(min(len(reqs), 4))]
			s := sel(p)
			s.Op = "deliver"
			r.doRPC(s, p)
		case "oldfirst":
			p := reqs[rng.Intn(len(reqs))]
			s := sel(p)
			s.Op = "deliver"
			r.doRPC(s, p)
		case "reply":
			p := resps[rng.Intn(len(resps))]
			s := sel(p)
			s.Op = "reply"
			r.doRPC(s, p)
		case "drop":
			l := append(append([]*RPC{}, reqs...), resps...)
			p := l[rng.Intn(len(l))]
			s := sel(p)
			s.Op = "dropreq"
			if p.Phase == 2 {
				s.Op = "dropresp"
			}
			r.doRPC(s, p)
		case "dup":
			p := reqs[rng.Intn(len(reqs))]
			s := sel(p)
			s.Op = "dup"
			r.doRPC(s, p)
		case "fire":
			r.Do(Stim{Op: "fire", N: pickNode(up)})
		case "adv":
			r.Do(Stim{Op: "adv", D: []int{1, 10, 50, 100, 120, 350}[rng.Intn(6)]})
		case "hb":
			r.Do(Stim{Op: "hb", N: pickNode(leaders)})
		case "submit":
			valSeq++
			target := pickNode(up)
			if len(leaders) > 0 && rng.Intn(4) > 0 {
				target = pickNode(leaders)
			}
			r.Do(Stim{Op: "submit", N: target, Val: fmt.Sprintf("w%d", valSeq), K: 0, TO: []int{200, 1000, 5000}[rng.Intn(3)]})
		case "read":
			valSeq++
			target := pickNode(up)
			if len(leaders) > 0 && rng.Intn(4) > 0 {
				target = pickNode(leaders)
			}
			r.Do(Stim{Op: "submit", N: target, Val: fmt.Sprintf("r%d", valSeq), K: 1 + rng.Intn(2), TO: []int{200, 1000, 5000}[rng.Intn(3)]})
		case "crash":
			r.Do(Stim{Op: "crash", N: pickNode(up)})
		case "armcrash":
			r.Do(Stim{Op: "armcrash", N: pickNode(up), K: 1 + rng.Intn(3), W: []string{"before", "after"}[rng.Intn(2)]})
		case "stop":
			r.Do(Stim{Op: "stop", N: pickNode(up)})
		case "restart":
			r.Do(Stim{Op: "restart", N: pickNode(down)})
		case "member":
			r.randomMember(rng, cfg, pickNode(leaders), all)
		case "gate":
			id := pickNode(up)
			kind := []string{"apply", "snapshot", "restore"}[rng.Intn(3)]
			if _, ok := gated[id]; !ok {
				gated[id] = kind
				r.Do(Stim{Op: "gate", N: id, W: kind})
			}
		case "release":
			ids := make([]string, 0, len(gated))
			for id := range gated {
				ids = append(ids, id)
			}
			sort.Strings(ids)
			id := pickNode(ids)
			r.Do(Stim{Op: "release", N: id, W: gated[id]})
			delete(gated, id)
		case "snapnow":
			r.Do(Stim{Op: "snapnow", N: pickNode(up)})
		}
	}
}

// doRPC executes an rpc stimulus on the very rpc the adversary picked (the recorded
// stimulus carries kind/from/to so that a replay picks the corresponding one).
func (r *Runner) doRPC(s Stim, p *RPC) {
	c := r.c
	c.rec.Emit("step", Ev{"s": s, "rpc": p.ID})
	switch s.Op {
	case "deliver":
		c.net.Deliver(p)
	case "reply":
		c.net.Reply(p)
	case "dropreq", "dropresp":
		c.net.Drop(p)
	case "dup":
		c.net.Dup(p)
	}
	r.done++
}

func (r *Runner) randomMember(rng *rand.Rand, cfg *RandCfg, leader string, all []string) {
	c := r.c
	ln := c.node(leader)
	cur := ln.r.Configuration()
	if cfg.S5Free {
		// only when every running node has applied the latest configuration entry
		for _, id := range all {
			n := c.node(id)
			if !n.running {
				return
			}
			k := n.r.Configuration()
			if k.Index != cur.Index {
				return
			}
			st := n.r.Status()
			if st.LastApplied < cur.Index {
				return
			}
		}
	}
	var members, outsiders, nonvoters []string
	for _, id := range all {
		if _, ok := cur.Members[id]; ok {
			members = append(members, id)
			if !cur.IsVoter[id] {
				nonvoters = append(nonvoters, id)
			}
		} else {
			outsiders = append(outsiders, id)
		}
	}
	switch x := rng.Intn(10); {
	case x < 4 && len(outsiders) > 0:
		r.Do(Stim{Op: "add", N: leader, ID: outsiders[rng.Intn(len(outsiders))], V: rng.Intn(2) == 0, TO: 1000})
	case x < 6 && len(nonvoters) > 0:
		r.Do(Stim{Op: "add", N: leader, ID: nonvoters[rng.Intn(len(nonvoters))], V: true, TO: 1000})
	case len(members) > 1:
		r.Do(Stim{Op: "remove", N: leader, ID: members[rng.Intn(len(members))], TO: 1000})
	}
}
