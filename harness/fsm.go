//go:build verif

package harness

import (
	"bytes"
	"encoding/json"
	"io"
	"sync"
	"time"

	"github.com/jmsadair/raft"
)

// FSM is the state machine plugged into every node. Its state is the sequence of
// replicated operations it was handed (index, term, value), so duplicate, skipped or
// divergent application, snapshot content and read results are all directly visible.
type FSM struct {
	n  *Node
	mu sync.Mutex
	// applied operations in application order
	ops []fsmOp

	// snapshot policy: take a snapshot when the log holds at least snapEvery entries
	// (0 = never), or when snapNow was armed by the scheduler.
	snapEvery int
	snapNow   bool
	// padding of the serialised snapshot (bytes)
	snapPad int

	// gates: a gated call blocks until the scheduler releases it.
	gate map[string]chan struct{} // "apply" | "snapshot" | "restore" | "read"
	held map[string]int           // calls currently parked per kind
}

type fsmOp struct {
	I int    `json:"i"`
	T int    `json:"t"`
	V string `json:"v"`
}

type FSMResp struct {
	Count int
	Last  int
}

type snapDoc struct {
	Ops []fsmOp `json:"ops"`
	Pad string  `json:"pad,omitempty"`
}

func newFSM(n *Node) *FSM {
	return &FSM{n: n, gate: map[string]chan struct{}{}, held: map[string]int{}}
}

func (f *FSM) detached() bool { return f.n.ghost.Load() }

// wait parks the caller if a gate of this kind is armed.
func (f *FSM) wait(kind string) {
	f.mu.Lock()
	ch := f.gate[kind]
	if ch != nil {
		f.held[kind]++
	}
	f.mu.Unlock()
	if ch != nil {
		<-ch
		f.mu.Lock()
		f.held[kind]--
		f.mu.Unlock()
	}
}

// Arm makes the following calls of this kind block until Release.
func (f *FSM) Arm(kind string) {
	f.mu.Lock()
	defer f.mu.Unlock()
	if f.gate[kind] == nil {
		f.gate[kind] = make(chan struct{})
	}
}

func (f *FSM) Release(kind string) {
	f.mu.Lock()
	defer f.mu.Unlock()
	if ch := f.gate[kind]; ch != nil {
		close(ch)
		delete(f.gate, kind)
	}
}

func (f *FSM) ReleaseAll() {
	f.mu.Lock()
	kinds := make([]string, 0, len(f.gate))
	for k := range f.gate {
		kinds = append(kinds, k)
	}
	f.mu.Unlock()
	for _, k := range kinds {
		f.Release(k)
	}
}

func (f *FSM) Held(kind string) int {
	f.mu.Lock()
	defer f.mu.Unlock()
	return f.held[kind]
}

func (f *FSM) indices() []int {
	out := make([]int, 0, len(f.ops))
	for _, o := range f.ops {
		out = append(out, o.I)
	}
	return out
}

func (f *FSM) Apply(op *raft.Operation) interface{} {
	c := f.n.c
	if op.OperationType == raft.Replicated {
		if !f.detached() {
			// The call is visible from the moment it starts (it is handed the operation).
			c.rec.Emit("apply", Ev{"node": f.n.id, "inc": f.n.inc, "index": int(op.LogIndex), "term": int(op.LogTerm), "val": valString(op.Bytes)})
		}
		f.wait("apply")
		f.mu.Lock()
		f.ops = append(f.ops, fsmOp{int(op.LogIndex), int(op.LogTerm), valString(op.Bytes)})
		r := FSMResp{Count: len(f.ops), Last: int(op.LogIndex)}
		f.mu.Unlock()
		if !f.detached() {
			c.rec.Emit("apply_end", Ev{"node": f.n.id, "inc": f.n.inc, "index": int(op.LogIndex), "count": r.Count})
		}
		return r
	}
	f.wait("read")
	f.mu.Lock()
	r := FSMResp{Count: len(f.ops)}
	if len(f.ops) > 0 {
		r.Last = f.ops[len(f.ops)-1].I
	}
	content := f.indices()
	f.mu.Unlock()
	if !f.detached() {
		c.rec.Emit("read", Ev{"node": f.n.id, "inc": f.n.inc, "val": valString(op.Bytes), "kind": int(op.OperationType), "count": r.Count, "last": r.Last, "content": content})
	}
	return r
}

func (f *FSM) Snapshot(w io.Writer) error {
	c := f.n.c
	// Two snapshots of one node must not get the same snapshot-<UnixNano> directory name;
	// under a virtual clock that needs an explicit tick (a real clock always moves).
	time.Sleep(time.Microsecond)
	if sf, ok := w.(*snapFileW); ok {
		sf.own = true
	}
	if !f.detached() {
		c.rec.Emit("snapshot_begin", Ev{"node": f.n.id, "inc": f.n.inc})
	}
	f.wait("snapshot")
	f.mu.Lock()
	doc := snapDoc{Ops: append([]fsmOp{}, f.ops...)}
	if f.snapPad > 0 {
		doc.Pad = string(bytes.Repeat([]byte{'.'}, f.snapPad))
	}
	f.snapNow = false
	content := f.indices()
	f.mu.Unlock()
	b, _ := json.Marshal(doc)
	if !f.detached() {
		c.rec.Emit("snapshot_end", Ev{"node": f.n.id, "inc": f.n.inc, "content": content, "size": len(b)})
	}
	// Written in pieces no larger than the library's transfer chunk so that crash points
	// fall inside a snapshot write as well.
	for len(b) > 0 {
		k := len(b)
		if k > 16*1024 {
			k = 16 * 1024
		}
		if _, err := w.Write(b[:k]); err != nil {
			return err
		}
		b = b[k:]
	}
	return nil
}

func decodeSnapshot(b []byte) ([]int, bool) {
	var doc snapDoc
	if err := json.Unmarshal(b, &doc); err != nil {
		return []int{}, false
	}
	out := make([]int, 0, len(doc.Ops))
	for _, o := range doc.Ops {
		out = append(out, o.I)
	}
	return out, true
}

func (f *FSM) Restore(r io.Reader) error {
	c := f.n.c
	b, err := io.ReadAll(r)
	if err != nil {
		return err
	}
	if !f.detached() {
		c.rec.Emit("restore_begin", Ev{"node": f.n.id, "inc": f.n.inc, "size": len(b)})
	}
	f.wait("restore")
	var doc snapDoc
	uerr := json.Unmarshal(b, &doc)
	f.mu.Lock()
	if uerr == nil {
		f.ops = append([]fsmOp{}, doc.Ops...)
	} else {
		f.ops = nil
	}
	content := f.indices()
	f.mu.Unlock()
	if !f.detached() {
		c.rec.Emit("restore", Ev{"node": f.n.id, "inc": f.n.inc, "content": content, "ok": uerr == nil, "size": len(b)})
	}
	// Bytes that are not a snapshot any state machine produced are recorded (ok=false) and
	// judged by the monitors; returning the error would make the library os.Exit.
	return nil
}

func (f *FSM) NeedSnapshot(logSize int) bool {
	f.mu.Lock()
	defer f.mu.Unlock()
	if f.snapNow {
		return true
	}
	return f.snapEvery > 0 && logSize >= f.snapEvery
}
