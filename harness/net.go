//go:build verif

package harness

import (
	"errors"
	"math/rand"
	"sort"
	"time"

	"github.com/jmsadair/raft"
)

var errNet = errors.New("harness: rpc failed")

// RPC is one request/response pair travelling through the harness network.
type RPC struct {
	ID      int
	Kind    string // "rv" | "ae" | "is"
	From    string
	FromInc int
	To      string
	AE      *raft.AppendEntriesRequest
	RV      *raft.RequestVoteRequest
	IS      *raft.InstallSnapshotRequest
	// response, valid once Phase >= 2
	AEr raft.AppendEntriesResponse
	RVr raft.RequestVoteResponse
	ISr raft.InstallSnapshotResponse
	Err error
	// 0 request in flight, 1 being handled, 2 response in flight, 3 finished
	Phase int
	ch    chan struct{}
	sent  time.Time
}

type Net struct {
	c    *Cluster
	seq  int
	rpcs map[int]*RPC
	// auto: requests are delivered and answered at once unless the link is blocked
	auto    bool
	blocked map[[2]string]bool
	latency time.Duration
	// cap on requests in flight per directed link in manual mode (oldest dropped first)
	maxPerLink int
	// links (from, to) that stay under the step scheduler while the rest of the network is
	// automatic; "*" matches any node
	hold map[[2]string]bool
	// auto mode: per-message delay drawn uniformly from [latency, latency+jitter]
	jitter time.Duration
	rng    *rand.Rand
	// canonical snapshots (by name) that injected InstallSnapshot requests cut their chunks from
	canon map[string][]byte
}

func newNet(c *Cluster) *Net {
	return &Net{c: c, rpcs: map[int]*RPC{}, blocked: map[[2]string]bool{}, maxPerLink: 4, hold: map[[2]string]bool{}, rng: rand.New(rand.NewSource(1)), canon: map[string][]byte{}}
}

func (nt *Net) held(from, to string) bool {
	return nt.hold[[2]string{from, to}] || nt.hold[[2]string{from, "*"}] || nt.hold[[2]string{"*", to}]
}

// Hold puts a directed link (or all links of a node, with "*") under the step scheduler.
func (nt *Net) Hold(from, to string, on bool) {
	nt.c.mu.Lock()
	if on {
		nt.hold[[2]string{from, to}] = true
	} else {
		delete(nt.hold, [2]string{from, to})
	}
	nt.c.mu.Unlock()
}

func (nt *Net) SetAuto(on bool) {
	nt.c.mu.Lock()
	nt.auto = on
	var flush []*RPC
	if on {
		for _, r := range nt.rpcs {
			flush = append(flush, r)
		}
	}
	nt.c.mu.Unlock()
	// whatever is still in flight from the manual phase is lost
	sort.Slice(flush, func(i, j int) bool { return flush[i].ID < flush[j].ID })
	for _, r := range flush {
		nt.fail(r, "flush")
	}
}

func (nt *Net) Block(from, to string, on bool) {
	nt.c.mu.Lock()
	if on {
		nt.blocked[[2]string{from, to}] = true
	} else {
		delete(nt.blocked, [2]string{from, to})
	}
	nt.c.mu.Unlock()
}

func (nt *Net) Heal() {
	nt.c.mu.Lock()
	nt.blocked = map[[2]string]bool{}
	nt.c.mu.Unlock()
}

// ---- event rendering ---------------------------------------------------------------------

func (nt *Net) reqEv(r *RPC) Ev {
	e := Ev{"id": r.ID, "kind": r.Kind, "from": r.From, "finc": r.FromInc, "to": r.To}
	switch r.Kind {
	case "ae":
		q := r.AE
		e["term"], e["leader"], e["prev"], e["prevt"], e["commit"] = int(q.Term), q.LeaderID, int(q.PrevLogIndex), int(q.PrevLogTerm), int(q.LeaderCommit)
		e["entries"] = nt.c.entsEv(q.Entries)
	case "rv":
		q := r.RV
		e["term"], e["cand"], e["last"], e["lastt"], e["pre"] = int(q.Term), q.CandidateID, int(q.LastLogIndex), int(q.LastLogTerm), q.Prevote
	case "is":
		q := r.IS
		e["term"], e["leader"], e["index"], e["iterm"], e["off"], e["n"], e["done"] = int(q.Term), q.LeaderID, int(q.LastIncludedIndex), int(q.LastIncludedTerm), int(q.Offset), len(q.Bytes), q.Done
		e["cfg"] = nt.c.cfgBytesEv(q.Configuration)
	}
	return e
}

func (nt *Net) respEv(r *RPC, e Ev) Ev {
	switch r.Kind {
	case "ae":
		e["rterm"], e["ok"], e["hint"] = int(r.AEr.Term), r.AEr.Success, int(r.AEr.Index)
	case "rv":
		e["rterm"], e["ok"] = int(r.RVr.Term), r.RVr.VoteGranted
	case "is":
		e["rterm"], e["written"] = int(r.ISr.Term), int(r.ISr.BytesWritten)
	}
	return e
}

// ---- sender side --------------------------------------------------------------------------

func copyEntries(es []*raft.LogEntry) []*raft.LogEntry {
	out := make([]*raft.LogEntry, len(es))
	for i, e := range es {
		// exactly what survives the wire: index, term, data, type (no file offset)
		out[i] = &raft.LogEntry{Index: e.Index, Term: e.Term, Data: append([]byte{}, e.Data...), EntryType: e.EntryType}
	}
	return out
}

// send registers an outgoing request of node n and blocks the calling goroutine (one of
// the library's send goroutines, which does not hold the node's lock) until the scheduler
// has decided the fate of the request and of its response.
func (nt *Net) send(n *Node, r *RPC) error {
	c := nt.c
	c.mu.Lock()
	if n.ghost.Load() || !n.running {
		c.mu.Unlock()
		return errNet
	}
	nt.seq++
	r.ID = nt.seq
	r.From, r.FromInc = n.id, n.inc
	r.ch = make(chan struct{})
	r.sent = time.Now()
	nt.rpcs[r.ID] = r
	auto := nt.auto && !nt.held(r.From, r.To)
	var victims []*RPC
	if !auto && nt.maxPerLink > 0 {
		var same []*RPC
		for _, o := range nt.rpcs {
			if o.From == r.From && o.To == r.To && o.Phase == 0 && o.ID != r.ID {
				same = append(same, o)
			}
		}
		if len(same) >= nt.maxPerLink {
			sort.Slice(same, func(i, j int) bool { return same[i].ID < same[j].ID })
			victims = same[:len(same)-nt.maxPerLink+1]
		}
	}
	c.mu.Unlock()
	c.rec.Emit("send", nt.reqEv(r))
	for _, v := range victims {
		nt.fail(v, "overflow")
	}
	if auto {
		nt.autoDeliver(r)
	} else {
		<-r.ch
	}
	c.mu.Lock()
	delete(nt.rpcs, r.ID)
	dead := n.ghost.Load()
	c.mu.Unlock()
	if dead {
		return errNet
	}
	return r.Err
}

func (nt *Net) autoDeliver(r *RPC) {
	c := nt.c
	c.mu.Lock()
	blockedOut := nt.blocked[[2]string{r.From, r.To}]
	blockedBack := nt.blocked[[2]string{r.To, r.From}]
	lat := nt.latency
	lat2 := nt.latency
	if nt.jitter > 0 {
		lat += time.Duration(nt.rng.Int63n(int64(nt.jitter)))
		lat2 += time.Duration(nt.rng.Int63n(int64(nt.jitter)))
	}
	c.mu.Unlock()
	if blockedOut {
		nt.finish(r, errNet, "drop_req")
		return
	}
	if lat > 0 {
		time.Sleep(lat)
	}
	nt.handle(r)
	if r.Err != nil {
		nt.finish(r, r.Err, "unreachable")
		return
	}
	if blockedBack {
		nt.finish(r, errNet, "drop_resp")
		return
	}
	if lat2 > 0 {
		time.Sleep(lat2)
	}
	nt.finish(r, nil, "reply")
}

// finish closes the RPC; the sender continues with the response or an error.
func (nt *Net) finish(r *RPC, err error, how string) {
	c := nt.c
	c.mu.Lock()
	if r.Phase == 3 {
		c.mu.Unlock()
		return
	}
	r.Phase = 3
	r.Err = err
	src := c.nodes[r.From]
	alive := src != nil && src.inc == r.FromInc && !src.ghost.Load()
	c.mu.Unlock()
	if alive {
		e := Ev{"id": r.ID, "kind": r.Kind, "from": r.From, "to": r.To}
		if how == "reply" && r.Kind != "rv" {
			c.mu.Lock()
			c.leaseAt[r.From] = time.Now()
			c.mu.Unlock()
		}
		if how == "reply" {
			nt.respEv(r, e)
			c.rec.Emit("reply", e)
		} else {
			e["how"] = how
			c.rec.Emit("drop", e)
		}
	}
	select {
	case <-r.ch:
	default:
		close(r.ch)
	}
}

func (nt *Net) fail(r *RPC, how string) { nt.finish(r, errNet, how) }

// failAll fails every RPC sent by node n that is still open (n stops or crashes).
func (nt *Net) failAll(n *Node) {
	c := nt.c
	c.mu.Lock()
	var l []*RPC
	for _, r := range nt.rpcs {
		if r.From == n.id && r.FromInc == n.inc {
			l = append(l, r)
		}
	}
	c.mu.Unlock()
	for _, r := range l {
		nt.fail(r, "sender_down")
	}
}

func (nt *Net) failEverything() {
	c := nt.c
	c.mu.Lock()
	var l []*RPC
	for _, r := range nt.rpcs {
		l = append(l, r)
	}
	c.mu.Unlock()
	for _, r := range l {
		nt.fail(r, "end")
	}
}

// ---- receiver side ------------------------------------------------------------------------

// handle runs the destination's registered handler on a copy of the request, in the
// calling goroutine. Afterwards the response is "in flight" (Phase 2).
func (nt *Net) handle(r *RPC) {
	c := nt.c
	c.mu.Lock()
	dst := c.nodes[r.To]
	ok := dst != nil && dst.running && !dst.ghost.Load() && dst.tr.registered()
	if ok {
		r.Phase = 1
	}
	manual := 0
	if !nt.auto || nt.held(r.From, r.To) {
		manual = 1
	}
	c.mu.Unlock()
	if !ok {
		r.Err = errNet
		return
	}
	e := Ev{"id": r.ID, "kind": r.Kind, "from": r.From, "to": r.To, "inc": dst.inc, "m": manual}
	c.rec.Emit("deliver", e)
	dst.handling.Add(1)
	var err error
	switch r.Kind {
	case "ae":
		q := *r.AE
		q.Entries = copyEntries(r.AE.Entries)
		var resp raft.AppendEntriesResponse
		err = dst.tr.ae(&q, &resp)
		r.AEr = resp
	case "rv":
		q := *r.RV
		var resp raft.RequestVoteResponse
		err = dst.tr.rv(&q, &resp)
		r.RVr = resp
	case "is":
		q := *r.IS
		q.Bytes = append([]byte{}, r.IS.Bytes...)
		q.Configuration = append([]byte{}, r.IS.Configuration...)
		var resp raft.InstallSnapshotResponse
		err = dst.tr.is(&q, &resp)
		r.ISr = resp
	}
	dst.handling.Add(-1)
	if dst.ghost.Load() {
		// the destination crashed while handling: the response never leaves it
		r.Err = errNet
		c.mu.Lock()
		r.Phase = 2
		c.mu.Unlock()
		return
	}
	h := Ev{"id": r.ID, "kind": r.Kind, "from": r.From, "to": r.To, "inc": dst.inc}
	if err != nil {
		h["err"] = err.Error()
		r.Err = errNet
	} else {
		nt.respEv(r, h)
		nt.noteContact(dst, r)
	}
	c.rec.Emit("handled", h)
	c.mu.Lock()
	r.Phase = 2
	c.mu.Unlock()
}

// noteContact mirrors the places where the library resets a node's lastContact, so that
// Fire knows when an election timer can have an effect.
func (nt *Net) noteContact(dst *Node, r *RPC) {
	set := false
	switch r.Kind {
	case "ae":
		set = r.AEr.Term <= r.AE.Term
	case "is":
		set = r.ISr.Term <= r.IS.Term
	case "rv":
		set = r.RVr.VoteGranted && !r.RV.Prevote
	}
	if set {
		nt.c.mu.Lock()
		nt.c.contactAt[dst.id] = time.Now()
		nt.c.mu.Unlock()
	}
}

// ---- scheduler stimuli (manual mode) ------------------------------------------------------

// Pending lists open RPCs in id order.
func (nt *Net) Pending() []*RPC {
	c := nt.c
	c.mu.Lock()
	defer c.mu.Unlock()
	var l []*RPC
	for _, r := range nt.rpcs {
		if r.Phase != 3 {
			l = append(l, r)
		}
	}
	sort.Slice(l, func(i, j int) bool { return l[i].ID < l[j].ID })
	return l
}

// Deliver hands request r to its destination (in a fresh goroutine: a handler may park).
func (nt *Net) Deliver(r *RPC) {
	c := nt.c
	c.mu.Lock()
	if r.Phase != 0 {
		c.mu.Unlock()
		return
	}
	c.mu.Unlock()
	go func() {
		nt.handle(r)
		if r.Err != nil {
			nt.finish(r, r.Err, "unreachable")
		}
	}()
	c.Settle()
}

// Dup runs the destination's handler on a copy of request r; the duplicate's response is
// lost. The original stays in flight.
func (nt *Net) Dup(r *RPC) {
	c := nt.c
	c.mu.Lock()
	if r.Phase != 0 {
		c.mu.Unlock()
		return
	}
	nt.seq++
	d := &RPC{ID: nt.seq, Kind: r.Kind, From: r.From, FromInc: r.FromInc, To: r.To, AE: r.AE, RV: r.RV, IS: r.IS, ch: make(chan struct{})}
	c.mu.Unlock()
	e := nt.reqEv(d)
	e["dupof"] = r.ID
	c.rec.Emit("send", e)
	go func() {
		nt.handle(d)
		c.mu.Lock()
		d.Phase = 3
		c.mu.Unlock()
		c.rec.Emit("drop", Ev{"id": d.ID, "kind": d.Kind, "from": d.From, "to": d.To, "how": "dup_resp"})
	}()
	c.Settle()
}

// Reply lets the response of a handled request reach its sender.
func (nt *Net) Reply(r *RPC) {
	c := nt.c
	c.mu.Lock()
	if r.Phase != 2 {
		c.mu.Unlock()
		return
	}
	c.mu.Unlock()
	if r.Err != nil {
		nt.finish(r, r.Err, "unreachable")
	} else {
		nt.finish(r, nil, "reply")
	}
	c.Settle()
}

// Drop loses the request (Phase 0) or the response (Phase 2).
func (nt *Net) Drop(r *RPC) {
	how := "drop_req"
	if r.Phase == 2 {
		how = "drop_resp"
	}
	nt.fail(r, how)
	nt.c.Settle()
}

// ---- the Transport the library sees -------------------------------------------------------

type memTransport struct {
	n  *Node
	ae func(*raft.AppendEntriesRequest, *raft.AppendEntriesResponse) error
	rv func(*raft.RequestVoteRequest, *raft.RequestVoteResponse) error
	is func(*raft.InstallSnapshotRequest, *raft.InstallSnapshotResponse) error
}

func (t *memTransport) registered() bool { return t.ae != nil && t.rv != nil && t.is != nil }

func (t *memTransport) Run() error      { return nil }
func (t *memTransport) Shutdown() error { return nil }
func (t *memTransport) Address() string { return t.n.id }

func (t *memTransport) SendAppendEntries(address string, request raft.AppendEntriesRequest) (raft.AppendEntriesResponse, error) {
	q := request
	q.Entries = copyEntries(request.Entries)
	r := &RPC{Kind: "ae", To: address, AE: &q}
	if err := t.n.c.net.send(t.n, r); err != nil {
		return raft.AppendEntriesResponse{}, err
	}
	return r.AEr, nil
}

func (t *memTransport) SendRequestVote(address string, request raft.RequestVoteRequest) (raft.RequestVoteResponse, error) {
	q := request
	r := &RPC{Kind: "rv", To: address, RV: &q}
	if err := t.n.c.net.send(t.n, r); err != nil {
		return raft.RequestVoteResponse{}, err
	}
	return r.RVr, nil
}

func (t *memTransport) SendInstallSnapshot(address string, request raft.InstallSnapshotRequest) (raft.InstallSnapshotResponse, error) {
	q := request
	q.Bytes = append([]byte{}, request.Bytes...)
	q.Configuration = append([]byte{}, request.Configuration...)
	r := &RPC{Kind: "is", To: address, IS: &q}
	if err := t.n.c.net.send(t.n, r); err != nil {
		return raft.InstallSnapshotResponse{}, err
	}
	return r.ISr, nil
}

func (t *memTransport) RegisterAppendEntriesHandler(h func(*raft.AppendEntriesRequest, *raft.AppendEntriesResponse) error) {
	t.ae = h
}
func (t *memTransport) RegisterRequestVoteHandler(h func(*raft.RequestVoteRequest, *raft.RequestVoteResponse) error) {
	t.rv = h
}
func (t *memTransport) RegsiterInstallSnapshotHandler(h func(*raft.InstallSnapshotRequest, *raft.InstallSnapshotResponse) error) {
	t.is = h
}
func (t *memTransport) EncodeConfiguration(c *raft.Configuration) ([]byte, error) {
	return t.n.c.codec.EncodeConfiguration(c)
}
func (t *memTransport) DecodeConfiguration(data []byte) (raft.Configuration, error) {
	return t.n.c.codec.DecodeConfiguration(data)
}
