//go:build verif

//go:debug randseednop=0

package harness

import (
	"encoding/json"
	"fmt"
	"math/rand"
	"os"
	"testing"
	"testing/synctest"
	"time"
)

// Job is what the parent (./check) hands to one child process.
type Job struct {
	Trace     string     `json:"trace"`
	Scenarios []Scenario `json:"scenarios"`
	Seed      int64      `json:"seed"`
}

// TestRun executes the scenarios of the job file named by VERIF_JOB, one bubble each,
// starting at index VERIF_START. It writes <trace>.progress before each scenario so that
// the parent can attribute an abort (logger.Fatal = os.Exit(1), panic, bubble deadlock)
// to the scenario that was running and resume after it.
func TestRun(t *testing.T) {
	path := os.Getenv("VERIF_JOB")
	if path == "" {
		t.Skip("VERIF_JOB not set")
	}
	b, err := os.ReadFile(path)
	if err != nil {
		t.Fatal(err)
	}
	var job Job
	if err := json.Unmarshal(b, &job); err != nil {
		t.Fatal(err)
	}
	start := 0
	fmt.Sscan(os.Getenv("VERIF_START"), &start)
	rec, err := NewRec(job.Trace)
	if err != nil {
		t.Fatal(err)
	}
	defer rec.Close()
	for i := start; i < len(job.Scenarios); i++ {
		sc := &job.Scenarios[i]
		os.WriteFile(job.Trace+".progress", []byte(fmt.Sprintf("%d %s\n", i, sc.Name)), 0o644)
		rand.Seed(job.Seed + int64(i))
		synctest.Test(t, func(t *testing.T) {
			ids := append(append([]string{}, sc.Voters...), sc.Extra...)
			et, lease := 300, 100
			if sc.ETMS > 0 {
				et = sc.ETMS
			}
			if sc.LeaseMS > 0 {
				lease = sc.LeaseMS
			}
			rec.Begin(sc.Name, Ev{"voters": sc.Voters, "extra": orEmpty(sc.Extra), "family": sc.Family, "controlled": sc.Controlled, "attack": sc.Attack,
				"et_us": et * 1000, "lease_us": lease * 1000})
			c := NewCluster(t, rec, ids)
			c.ET, c.Lease = time.Duration(et)*time.Millisecond, time.Duration(lease)*time.Millisecond
			defer c.Cleanup()
			r := &Runner{c: c, sc: sc}
			r.Run()
		})
	}
	os.WriteFile(job.Trace+".progress", []byte(fmt.Sprintf("%d done\n", len(job.Scenarios))), 0o644)
}

func orEmpty(l []string) []string {
	if l == nil {
		return []string{}
	}
	return l
}
