//go:build verif

package harness

import (
	"encoding/json"
	"os"
	"sync"
	"time"
)

// Ev is one trace event. Keys are short; values are small scalars or short lists so that
// TLC's Json module can deserialise them (TLC integers are 32 bit: times are microseconds
// since the start of the scenario).
type Ev map[string]any

// Rec writes ndjson events, one write(2) per event so that an os.Exit in the library
// (logger.Fatal) or a panic loses nothing that was already recorded.
type Rec struct {
	mu   sync.Mutex
	f    *os.File
	seq  int
	sc   string
	base time.Time
	n    int // events of the current scenario
}

func NewRec(path string) (*Rec, error) {
	f, err := os.OpenFile(path, os.O_CREATE|os.O_WRONLY|os.O_APPEND, 0o644)
	if err != nil {
		return nil, err
	}
	return &Rec{f: f}, nil
}

func (r *Rec) Close() { r.f.Close() }

// Begin starts a scenario: the "scenario" event acts as TraceReset for the monitors.
func (r *Rec) Begin(sc string, meta Ev) {
	r.mu.Lock()
	r.sc = sc
	r.base = time.Now()
	r.n = 0
	r.mu.Unlock()
	e := Ev{}
	for k, v := range meta {
		e[k] = v
	}
	r.Emit("scenario", e)
}

func (r *Rec) Now() int {
	return int(time.Since(r.base) / time.Microsecond)
}

func (r *Rec) Emit(ev string, e Ev) {
	r.mu.Lock()
	defer r.mu.Unlock()
	if e == nil {
		e = Ev{}
	}
	r.seq++
	r.n++
	e["seq"] = r.seq
	e["t"] = int(time.Since(r.base) / time.Microsecond)
	e["sc"] = r.sc
	e["ev"] = ev
	b, err := json.Marshal(e)
	if err != nil {
		panic(err)
	}
	b = append(b, '\n')
	if _, err := r.f.Write(b); err != nil {
		panic(err)
	}
}
