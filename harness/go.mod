module verif/harness

go 1.26

require github.com/jmsadair/raft v0.0.0

require (
	github.com/davecgh/go-spew v1.1.1 // indirect
	github.com/pmezard/go-difflib v1.0.0 // indirect
	github.com/stretchr/testify v1.9.0 // indirect
	golang.org/x/exp v0.0.0-20230108222341-4b8118a2686a // indirect
	golang.org/x/net v0.22.0 // indirect
	golang.org/x/sys v0.18.0 // indirect
	golang.org/x/text v0.14.0 // indirect
	google.golang.org/genproto/googleapis/rpc v0.0.0-20240318140521-94a12d6c2237 // indirect
	google.golang.org/grpc v1.64.0 // indirect
	google.golang.org/protobuf v1.34.1 // indirect
	gopkg.in/yaml.v3 v3.0.1 // indirect
)

replace github.com/jmsadair/raft => /repo
