//go:build verif

package harness

import (
	"fmt"
	"io"
	"os"
	"path/filepath"
	"sort"
	"sync"
	"sync/atomic"
	"testing"
	"testing/synctest"
	"time"

	"github.com/jmsadair/raft"
	"github.com/jmsadair/raft/logging"
)

// Cluster is a set of real raft nodes living in one synctest bubble, wired to a
// scheduler-controlled in-memory network, recording state machines and recording
// wrappers around the real file-backed storages.
type Cluster struct {
	t     *testing.T
	rec   *Rec
	mu    sync.Mutex
	ids   []string
	nodes map[string]*Node
	byPtr map[*raft.Raft]*Node
	root  string
	codec raft.Transport

	ET, HB, Lease time.Duration
	timed         bool // timed replay: virtual time advances only with the specification's Tick

	controlled bool            // election timers parked at the gate
	gatedOnly  map[string]bool // if non-empty: only these nodes' timers are gated
	fidSeq     int

	net *Net

	clientSeq int
	clients   sync.WaitGroup
	ghosts    []*Node

	// fsm defaults for new incarnations
	SnapEvery int
	SnapPad   int

	contactAt map[string]time.Time // harness estimate of each node's lastContact
	leaseAt   map[string]time.Time // last time a replication reply reached the node (lease renewal, at most)
}

type Node struct {
	c   *Cluster
	id  string
	inc int
	r   *raft.Raft
	dir string
	tr  *memTransport
	fsm *FSM
	lw  *logW

	pterm int // last persisted (or loaded) term / vote
	pvote string

	snapIdx    int // label of the newest snapshot this node published or was constructed over
	pendingOps int // replicated submissions to this incarnation whose future has not resolved

	ghost   atomic.Bool
	running bool
	created bool

	opCount   int
	crashAt   int
	crashWhen string

	handling atomic.Int32 // RPC handlers of this node currently running

	parked   bool
	gateCh   chan struct{}
	gateOpen bool // gate permanently open (node stopping / free-running)

	last string // last status line recorded
}

func (n *Node) ctx() string {
	if n.handling.Load() > 0 {
		return "h"
	}
	return ""
}

var theCluster atomic.Pointer[Cluster]

func init() {
	raft.VerifTimerGate = func(r *raft.Raft) {
		c := theCluster.Load()
		if c == nil {
			return
		}
		c.timerGate(r)
	}
}

func (c *Cluster) timerGate(r *raft.Raft) {
	c.mu.Lock()
	n := c.byPtr[r]
	if n == nil || n.ghost.Load() || n.gateOpen || !c.controlled || (len(c.gatedOnly) > 0 && !c.gatedOnly[n.id]) {
		c.mu.Unlock()
		return
	}
	n.parked = true
	ch := n.gateCh
	c.mu.Unlock()
	<-ch
	c.mu.Lock()
	n.parked = false
	c.mu.Unlock()
}

func scratchRoot() string {
	if d := os.Getenv("VERIF_SCRATCH"); d != "" {
		return d
	}
	if st, err := os.Stat("/dev/shm"); err == nil && st.IsDir() {
		return "/dev/shm"
	}
	return os.TempDir()
}

func NewCluster(t *testing.T, rec *Rec, ids []string) *Cluster {
	root, err := os.MkdirTemp(scratchRoot(), "verifh-")
	if err != nil {
		t.Fatal(err)
	}
	codec, err := raft.NewTransport("127.0.0.1:0")
	if err != nil {
		t.Fatal(err)
	}
	c := &Cluster{t: t, rec: rec, ids: ids, nodes: map[string]*Node{}, byPtr: map[*raft.Raft]*Node{},
		root: root, codec: codec, ET: 300 * time.Millisecond, HB: 50 * time.Millisecond, Lease: 100 * time.Millisecond,
		contactAt: map[string]time.Time{}, leaseAt: map[string]time.Time{}}
	c.net = newNet(c)
	theCluster.Store(c)
	return c
}

func (c *Cluster) Cleanup() {
	theCluster.Store(nil)
	os.RemoveAll(c.root)
}

func (c *Cluster) node(id string) *Node {
	c.mu.Lock()
	defer c.mu.Unlock()
	return c.nodes[id]
}

// create builds a new incarnation of node id over dir (NewRaft runs restore()).
func (c *Cluster) create(id string, inc int, dir string) (*Node, error) {
	n := &Node{c: c, id: id, inc: inc, dir: dir, gateCh: make(chan struct{})}
	n.fsm = newFSM(n)
	n.fsm.snapEvery, n.fsm.snapPad = c.SnapEvery, c.SnapPad
	n.tr = &memTransport{n: n}
	c.rec.Emit("new", Ev{"node": id, "inc": inc})
	lg, err := raft.NewLog(dir)
	if err != nil {
		return n, fmt.Errorf("NewLog: %w", err)
	}
	ss, err := raft.NewStateStorage(dir)
	if err != nil {
		return n, fmt.Errorf("NewStateStorage: %w", err)
	}
	n.lw = &logW{n: n, inner: lg}
	sn, err := raft.NewSnapshotStorage(dir)
	if err != nil {
		return n, fmt.Errorf("NewSnapshotStorage: %w", err)
	}
	r, err := raft.NewRaft(id, id, n.fsm, dir,
		raft.WithLog(n.lw),
		raft.WithStateStorage(&stateW{n: n, inner: ss}),
		raft.WithSnapshotStorage(&snapW{n: n, inner: sn}),
		raft.WithTransport(n.tr),
		raft.WithElectionTimeout(c.ET), raft.WithHeartbeatInterval(c.HB), raft.WithLeaseDuration(c.Lease),
		raft.WithLogLevel(logging.Fatal))
	if err != nil {
		return n, fmt.Errorf("NewRaft: %w", err)
	}
	n.r = r
	n.created = true
	c.mu.Lock()
	c.byPtr[r] = n
	c.mu.Unlock()
	return n, nil
}

// AddNode creates the first incarnation of a node over an empty directory.
func (c *Cluster) AddNode(id string) *Node {
	dir := filepath.Join(c.root, id+"-1")
	if err := os.MkdirAll(dir, 0o755); err != nil {
		c.t.Fatal(err)
	}
	n, err := c.create(id, 1, dir)
	if err != nil {
		c.rec.Emit("new_fail", Ev{"node": id, "inc": 1, "err": err.Error()})
	}
	c.mu.Lock()
	c.nodes[id] = n
	c.mu.Unlock()
	return n
}

func (c *Cluster) Bootstrap(n *Node, members []string) error {
	m := map[string]string{}
	for _, id := range members {
		m[id] = id
	}
	err := n.r.Bootstrap(m)
	e := Ev{"node": n.id, "inc": n.inc, "members": members}
	if err != nil {
		e["err"] = err.Error()
	}
	c.rec.Emit("bootstrap", e)
	return err
}

func (c *Cluster) Start(n *Node) error {
	if !n.created {
		return fmt.Errorf("node %s was not created", n.id)
	}
	err := n.r.Start()
	e := Ev{"node": n.id, "inc": n.inc}
	if err != nil {
		e["err"] = err.Error()
	} else {
		c.mu.Lock()
		n.running = true
		c.contactAt[n.id] = time.Now()
		c.mu.Unlock()
	}
	c.rec.Emit("start", e)
	return err
}

// openGate lets the node's ticker run freely from now on (needed before Stop).
func (c *Cluster) openGate(n *Node) {
	c.mu.Lock()
	if !n.gateOpen {
		n.gateOpen = true
		close(n.gateCh)
	}
	c.mu.Unlock()
}

// StopNode is a graceful Stop() through the API.
func (c *Cluster) StopNode(n *Node) {
	if !n.running || n.ghost.Load() {
		return
	}
	c.rec.Emit("stop", Ev{"node": n.id, "inc": n.inc})
	c.mu.Lock()
	n.running = false
	c.mu.Unlock()
	c.openGate(n)
	n.fsm.ReleaseAll()
	c.net.failAll(n)
	done := make(chan struct{})
	go func() { n.r.Stop(); close(done) }()
	// Stop waits for the node's loops; they need virtual time to pass (sleeping tickers).
	<-done
	c.rec.Emit("stopped", Ev{"node": n.id, "inc": n.inc})
}

// crashNow is called either by the scheduler at quiescence (k = 0) or from inside a storage
// wrapper call of the node (k = operation number). It freezes the node's directory into
// the image the next incarnation will start from, and cuts the current incarnation off
// from everything observable.
func (c *Cluster) crashNow(n *Node, k int, when, kind string) {
	if n.ghost.Load() {
		return
	}
	image := filepath.Join(c.root, fmt.Sprintf("%s-%d", n.id, n.inc+1))
	if err := copyDir(n.dir, image); err != nil {
		panic(fmt.Sprintf("harness: image copy failed: %v", err))
	}
	n.ghost.Store(true)
	c.mu.Lock()
	n.running = false
	n.crashAt = 0
	c.ghosts = append(c.ghosts, n)
	c.mu.Unlock()
	c.rec.Emit("crash", Ev{"node": n.id, "inc": n.inc, "k": k, "when": when, "op": kind})
	c.openGate(n)
	n.fsm.ReleaseAll()
	c.net.failAll(n)
	go n.r.Stop()
}

// Crash at quiescence.
func (c *Cluster) Crash(n *Node) {
	if n.running {
		c.crashNow(n, 0, "now", "")
	}
}

// ArmCrash schedules a crash at the node's delta-th next storage operation.
func (c *Cluster) ArmCrash(n *Node, delta int, when string) {
	c.mu.Lock()
	n.crashAt = n.opCount + delta
	n.crashWhen = when
	c.mu.Unlock()
}

// Restart builds the next incarnation over the node's directory (after a graceful stop)
// or over the crash image, exactly as a new process would: constructors, NewRaft, Start.
func (c *Cluster) Restart(id string) (*Node, error) {
	old := c.node(id)
	if old == nil || old.running {
		return old, nil
	}
	dir := old.dir
	if old.ghost.Load() {
		dir = filepath.Join(c.root, fmt.Sprintf("%s-%d", id, old.inc+1))
	}
	c.rec.Emit("restart", Ev{"node": id, "inc": old.inc + 1})
	n, err := c.create(id, old.inc+1, dir)
	c.mu.Lock()
	c.nodes[id] = n
	c.mu.Unlock()
	if err != nil {
		c.rec.Emit("restart_fail", Ev{"node": id, "inc": n.inc, "err": err.Error(), "stage": "new"})
		return n, err
	}
	if err := c.Start(n); err != nil {
		c.rec.Emit("restart_fail", Ev{"node": id, "inc": n.inc, "err": err.Error(), "stage": "start"})
		return n, err
	}
	return n, nil
}

func copyDir(src, dst string) error {
	return filepath.Walk(src, func(p string, info os.FileInfo, err error) error {
		if err != nil {
			if os.IsNotExist(err) {
				return nil // a temporary file vanished while we were walking
			}
			return err
		}
		rel, _ := filepath.Rel(src, p)
		target := filepath.Join(dst, rel)
		if info.IsDir() {
			return os.MkdirAll(target, 0o755)
		}
		in, err := os.Open(p)
		if err != nil {
			if os.IsNotExist(err) {
				return nil
			}
			return err
		}
		defer in.Close()
		out, err := os.Create(target)
		if err != nil {
			return err
		}
		defer out.Close()
		_, err = io.Copy(out, in)
		return err
	})
}

// ---- observation --------------------------------------------------------------------------

// Observe records a status line for every running node whose externally visible state
// (Status(), Configuration()) changed since the last one.
func (c *Cluster) Observe() {
	c.mu.Lock()
	ns := make([]*Node, 0, len(c.nodes))
	for _, n := range c.nodes {
		if n.running && !n.ghost.Load() {
			ns = append(ns, n)
		}
	}
	c.mu.Unlock()
	sort.Slice(ns, func(i, j int) bool { return ns[i].id < ns[j].id })
	for _, n := range ns {
		st := n.r.Status()
		cfg := n.r.Configuration()
		e := Ev{"node": n.id, "inc": n.inc, "role": int(st.State), "term": int(st.Term), "commit": int(st.CommitIndex),
			"applied": int(st.LastApplied), "cfg": cfgEv(&cfg)}
		key := fmt.Sprint(e)
		if key == n.last {
			continue
		}
		n.last = key
		c.rec.Emit("status", e)
	}
}

// Settle waits until every goroutine in the bubble is durably blocked, then observes.
func (c *Cluster) Settle() {
	synctest.Wait()
	// the harness state machine lets one virtual microsecond pass inside Snapshot (so that
	// snapshot directory names differ); give it that microsecond before observing
	time.Sleep(2 * time.Microsecond)
	synctest.Wait()
	c.Observe()
}

// Advance lets virtual time pass, in slices so that status changes are observed close to
// when they happen.
func (c *Cluster) Advance(d time.Duration) {
	c.rec.Emit("tick", Ev{"d": int(d / time.Microsecond)})
	time.Sleep(d)
	c.Settle()
}

// Fire lets node n's election timer fire now: advance virtual time until n's ticker is
// parked at the gate and n has not been contacted for an election timeout, then release it.
func (c *Cluster) Fire(n *Node) bool {
	if !c.controlled || !n.running {
		return false
	}
	for i := 0; i < 200; i++ {
		c.mu.Lock()
		ok := n.parked && time.Since(c.contactAt[n.id]) >= c.ET
		c.mu.Unlock()
		if ok {
			break
		}
		time.Sleep(10 * time.Millisecond)
		synctest.Wait()
	}
	c.mu.Lock()
	if !n.parked {
		c.mu.Unlock()
		return false
	}
	ch := n.gateCh
	n.gateCh = make(chan struct{})
	c.mu.Unlock()
	c.rec.Emit("fire", Ev{"node": n.id, "inc": n.inc})
	close(ch)
	c.Settle()
	return true
}

// SetControlled switches between gated and free-running election timers.
func (c *Cluster) SetControlled(on bool) {
	c.mu.Lock()
	c.controlled = on
	var chs []chan struct{}
	if !on {
		for _, n := range c.nodes {
			if n.parked && !n.gateOpen {
				chs = append(chs, n.gateCh)
				n.gateCh = make(chan struct{})
			}
		}
	}
	c.mu.Unlock()
	for _, ch := range chs {
		close(ch)
	}
}

// Shutdown ends the scenario: every incarnation is stopped and given time to drain.
func (c *Cluster) Shutdown() {
	c.net.SetAuto(true)
	c.mu.Lock()
	ns := []*Node{}
	for _, n := range c.nodes {
		ns = append(ns, n)
	}
	c.mu.Unlock()
	for _, n := range ns {
		n.fsm.ReleaseAll()
		c.openGate(n)
		if n.running {
			c.StopNode(n)
		}
	}
	c.net.failEverything()
	c.clients.Wait()
	// ghosts wind down in the background; give their tickers time to notice
	time.Sleep(3 * c.ET)
	synctest.Wait()
}
