//go:build verif

package harness

import (
	"bytes"
	"crypto/sha256"
	"encoding/hex"
	"fmt"
	"io"
	"sort"

	"github.com/jmsadair/raft"
)

// ---- helpers to render entries and configurations -----------------------------------------

func valString(b []byte) string {
	for _, c := range b {
		if c < 0x21 || c > 0x7e || c == '"' || c == '\\' {
			return "x" + hex.EncodeToString(b)
		}
	}
	return string(b)
}

func cfgLists(c *raft.Configuration) (voters, nonvoters []string) {
	voters, nonvoters = []string{}, []string{}
	if c == nil {
		return
	}
	for id := range c.Members {
		if c.IsVoter[id] {
			voters = append(voters, id)
		} else {
			nonvoters = append(nonvoters, id)
		}
	}
	sort.Strings(voters)
	sort.Strings(nonvoters)
	return
}

func cfgEv(c *raft.Configuration) Ev {
	v, nv := cfgLists(c)
	idx := 0
	if c != nil {
		idx = int(c.Index)
	}
	return Ev{"i": idx, "v": v, "n": nv, "cs": fmt.Sprintf("cfg%d:%v|%v", idx, v, nv)}
}

func (c *Cluster) cfgBytesEv(data []byte) Ev {
	if len(data) == 0 {
		return Ev{"i": 0, "v": []string{}, "n": []string{}}
	}
	cfg, err := c.codec.DecodeConfiguration(data)
	if err != nil {
		return Ev{"i": -1, "v": []string{}, "n": []string{}}
	}
	return cfgEv(&cfg)
}

// entEv renders a log entry: i index, t term, k kind (0 noop, 1 op, 2 cfg), v value.
// Configuration entries carry the decoded voter / non-voter lists.
func (c *Cluster) entEv(e *raft.LogEntry) Ev {
	ev := Ev{"i": int(e.Index), "t": int(e.Term), "k": int(e.EntryType)}
	if e.EntryType == raft.ConfigurationEntry {
		cfg, err := c.codec.DecodeConfiguration(e.Data)
		if err != nil {
			ev["v"] = "badcfg"
			ev["cv"], ev["cn"] = []string{}, []string{}
		} else {
			v, nv := cfgLists(&cfg)
			ev["v"] = fmt.Sprintf("cfg%d:%v|%v", cfg.Index, v, nv)
			ev["cv"], ev["cn"] = v, nv
		}
	} else {
		ev["v"] = valString(e.Data)
	}
	return ev
}

func (c *Cluster) entsEv(es []*raft.LogEntry) []Ev {
	out := make([]Ev, 0, len(es))
	for _, e := range es {
		out = append(out, c.entEv(e))
	}
	return out
}

// ---- storage operation bookkeeping: recording and crash points ----------------------------

// op runs one storage operation of node n. It is the unit at which crashes are injected:
// "before" = the operation never reached the disk image, "after" = it did, but nothing
// that follows it in the calling goroutine is observable.
func (n *Node) op(kind string, e Ev, do func() error) error {
	if n.ghost.Load() {
		return do()
	}
	c := n.c
	c.mu.Lock()
	n.opCount++
	k := n.opCount
	crashBefore := n.crashAt == k && n.crashWhen == "before"
	crashAfter := n.crashAt == k && n.crashWhen == "after"
	c.mu.Unlock()
	if crashBefore {
		c.crashNow(n, k, "before", kind)
		return do()
	}
	err := do()
	if e == nil {
		e = Ev{}
	}
	e["node"], e["inc"], e["k"] = n.id, n.inc, k
	if err != nil {
		e["err"] = err.Error()
	}
	c.rec.Emit(kind, e)
	if crashAfter {
		c.crashNow(n, k, "after", kind)
	}
	return err
}

// ---- Log ----------------------------------------------------------------------------------

type logW struct {
	n     *Node
	inner raft.Log
}

func (l *logW) Open() error  { return l.inner.Open() }
func (l *logW) Close() error { return l.inner.Close() }

func (l *logW) Replay() error {
	err := l.inner.Replay()
	if l.n.ghost.Load() {
		return err
	}
	e := Ev{"node": l.n.id, "inc": l.n.inc}
	if err != nil {
		e["err"] = err.Error()
		e["base"], e["entries"] = 0, []Ev{}
	} else {
		base := l.inner.LastIndex() - uint64(l.inner.Size())
		e["base"] = int(base)
		e["lastt"] = int(l.inner.LastTerm())
		ents := []*raft.LogEntry{}
		for i := base + 1; i <= l.inner.LastIndex(); i++ {
			en, gerr := l.inner.GetEntry(i)
			if gerr != nil {
				e["err"] = gerr.Error()
				break
			}
			ents = append(ents, en)
		}
		e["entries"] = l.n.c.entsEv(ents)
	}
	l.n.c.rec.Emit("log_replay", e)
	return err
}

func (l *logW) GetEntry(index uint64) (*raft.LogEntry, error) { return l.inner.GetEntry(index) }
func (l *logW) Contains(index uint64) bool                    { return l.inner.Contains(index) }
func (l *logW) LastIndex() uint64                             { return l.inner.LastIndex() }
func (l *logW) LastTerm() uint64                              { return l.inner.LastTerm() }
func (l *logW) NextIndex() uint64                             { return l.inner.NextIndex() }
func (l *logW) Size() int                                     { return l.inner.Size() }

// after records what the real log reports once the operation returned, so that the monitor
// can compare it with the log it reconstructs from the operations' meaning.
func (l *logW) after(e Ev, err error) error {
	if err == nil {
		e["last"], e["lastt"], e["size"] = int(l.inner.LastIndex()), int(l.inner.LastTerm()), l.inner.Size()
	}
	return err
}

func (l *logW) AppendEntry(entry *raft.LogEntry) error {
	return l.AppendEntries([]*raft.LogEntry{entry})
}

func (l *logW) AppendEntries(entries []*raft.LogEntry) error {
	if len(entries) == 0 {
		// The library calls AppendEntries with an empty batch on every heartbeat; it still
		// fsyncs, but it is not a state change and not a useful crash point.
		return l.inner.AppendEntries(entries)
	}
	e := Ev{"entries": l.n.c.entsEv(entries), "ctx": l.n.ctx()}
	return l.n.op("log_append", e, func() error { return l.after(e, l.inner.AppendEntries(entries)) })
}

func (l *logW) Truncate(index uint64) error {
	e := Ev{"index": int(index)}
	return l.n.op("log_truncate", e, func() error { return l.after(e, l.inner.Truncate(index)) })
}

func (l *logW) DiscardEntries(index uint64, term uint64) error {
	e := Ev{"index": int(index), "term": int(term), "ctx": l.n.ctx()}
	return l.n.op("log_discard", e, func() error { return l.after(e, l.inner.DiscardEntries(index, term)) })
}

func (l *logW) Compact(index uint64) error {
	e := Ev{"index": int(index), "ctx": l.n.ctx()}
	return l.n.op("log_compact", e, func() error { return l.after(e, l.inner.Compact(index)) })
}

// ---- term / vote --------------------------------------------------------------------------

type stateW struct {
	n     *Node
	inner raft.StateStorage
}

func (s *stateW) SetState(term uint64, vote string) error {
	return s.n.op("set_state", Ev{"term": int(term), "vote": vote, "ctx": s.n.ctx()}, func() error {
		err := s.inner.SetState(term, vote)
		if err == nil {
			s.n.c.mu.Lock()
			s.n.pterm, s.n.pvote = int(term), vote
			s.n.c.mu.Unlock()
		}
		return err
	})
}

func (s *stateW) State() (uint64, string, error) {
	t, v, err := s.inner.State()
	s.n.pterm, s.n.pvote = int(t), v
	if !s.n.ghost.Load() {
		e := Ev{"node": s.n.id, "inc": s.n.inc, "term": int(t), "vote": v}
		if err != nil {
			e["err"] = err.Error()
		}
		s.n.c.rec.Emit("state_load", e)
	}
	return t, v, err
}

// ---- snapshots ----------------------------------------------------------------------------

type snapW struct {
	n     *Node
	inner raft.SnapshotStorage
}

type snapFileW struct {
	n      *Node
	inner  raft.SnapshotFile
	fid    int
	writer bool
	mirror bytes.Buffer
	closed bool
	own    bool // written by the node's own state machine (takeSnapshot), not by InstallSnapshot
}

func (s *snapW) NewSnapshotFile(idx, term uint64, cfg []byte) (raft.SnapshotFile, error) {
	c := s.n.c
	c.mu.Lock()
	c.fidSeq++
	fid := c.fidSeq
	c.mu.Unlock()
	var f raft.SnapshotFile
	err := s.n.op("snap_new", Ev{"fid": fid, "index": int(idx), "term": int(term), "cfg": c.cfgBytesEv(cfg), "ctx": s.n.ctx()}, func() error {
		var e error
		f, e = s.inner.NewSnapshotFile(idx, term, cfg)
		return e
	})
	if err != nil {
		return nil, err
	}
	return &snapFileW{n: s.n, inner: f, fid: fid, writer: true}, nil
}

func (s *snapW) SnapshotFile() (raft.SnapshotFile, error) {
	f, err := s.inner.SnapshotFile()
	if err != nil || f == nil {
		if !s.n.ghost.Load() {
			e := Ev{"node": s.n.id, "inc": s.n.inc, "fid": 0, "index": 0, "term": 0}
			if err != nil {
				e["err"] = err.Error()
			}
			s.n.c.rec.Emit("snap_open", e)
		}
		// A typed nil must not leak into the interface value.
		return nil, err
	}
	c := s.n.c
	c.mu.Lock()
	c.fidSeq++
	fid := c.fidSeq
	c.mu.Unlock()
	md := f.Metadata()
	if !s.n.running {
		// constructor (restore): the node starts from this snapshot
		s.n.snapIdx = int(md.LastIncludedIndex)
	}
	if !s.n.ghost.Load() {
		c.rec.Emit("snap_open", Ev{"node": s.n.id, "inc": s.n.inc, "fid": fid,
			"index": int(md.LastIncludedIndex), "term": int(md.LastIncludedTerm), "cfg": c.cfgBytesEv(md.Configuration)})
	}
	return &snapFileW{n: s.n, inner: f, fid: fid}, nil
}

func (f *snapFileW) Read(p []byte) (int, error)                { return f.inner.Read(p) }
func (f *snapFileW) Seek(off int64, whence int) (int64, error) { return f.inner.Seek(off, whence) }
func (f *snapFileW) Metadata() raft.SnapshotMetadata           { return f.inner.Metadata() }

func (f *snapFileW) Write(p []byte) (int, error) {
	var nw int
	err := f.n.op("snap_write", Ev{"fid": f.fid, "off": f.mirror.Len(), "n": len(p)}, func() error {
		var e error
		nw, e = f.inner.Write(p)
		if nw > 0 {
			f.mirror.Write(p[:nw])
		}
		return e
	})
	return nw, err
}

func (f *snapFileW) Close() error {
	if !f.writer || f.closed {
		return f.inner.Close()
	}
	f.closed = true
	md := f.inner.Metadata()
	sum := sha256.Sum256(f.mirror.Bytes())
	ctx := "h"
	if f.own {
		ctx = ""
	}
	e := Ev{"fid": f.fid, "index": int(md.LastIncludedIndex), "term": int(md.LastIncludedTerm), "ctx": ctx,
		"size": f.mirror.Len(), "h": hex.EncodeToString(sum[:6]), "cfg": f.n.c.cfgBytesEv(md.Configuration)}
	content, ok := decodeSnapshot(f.mirror.Bytes())
	e["ok"] = ok
	e["content"] = content
	err := f.n.op("snap_close", e, func() error {
		err := f.inner.Close()
		if err == nil {
			f.n.c.mu.Lock()
			f.n.snapIdx = int(md.LastIncludedIndex)
			f.n.c.mu.Unlock()
		}
		return err
	})
	if f.own && !f.n.ghost.Load() {
		// scheduler gate "after:snap_close": the node's own snapshot is published, takeSnapshot
		// has not returned to the library yet (it holds no lock there)
		f.n.fsm.wait("after:snap_close")
	}
	return err
}

func (f *snapFileW) Discard() error {
	if !f.writer || f.closed {
		return f.inner.Discard()
	}
	f.closed = true
	return f.n.op("snap_discard", Ev{"fid": f.fid}, func() error { return f.inner.Discard() })
}

var _ io.ReadWriteSeeker = (*snapFileW)(nil)
