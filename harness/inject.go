//go:build verif

package harness

import (
	"encoding/json"
	"fmt"
	"os"
	"path/filepath"

	"github.com/jmsadair/raft"
)

// canonicalSnapshot is the byte content of "the snapshot a sender had" for label idx over
// the given operations (same serialisation as FSM.Snapshot).
func canonicalSnapshot(ops []fsmOp, pad int) []byte {
	doc := snapDoc{Ops: ops}
	if pad > 0 {
		b := make([]byte, pad)
		for i := range b {
			b[i] = '.'
		}
		doc.Pad = string(b)
	}
	b, _ := json.Marshal(doc)
	return b
}

func (c *Cluster) prepEntries(es []PrepEnt, members []string) []*raft.LogEntry {
	out := make([]*raft.LogEntry, 0, len(es))
	for _, e := range es {
		data := []byte(e.V)
		if e.K == 2 {
			m := map[string]string{}
			for _, id := range members {
				m[id] = id
			}
			cfg := raft.NewConfiguration(uint64(e.I), m)
			data, _ = c.codec.EncodeConfiguration(cfg)
		}
		out = append(out, raft.NewLogEntry(uint64(e.I), uint64(e.T), data, raft.LogEntryType(e.K)))
	}
	return out
}

// AddPrepared writes the prepared durable state through the public storage API and then
// constructs the node over it, as a restart would.
func (c *Cluster) AddPrepared(id string, pr *Prep, members []string) *Node {
	dir := filepath.Join(c.root, id+"-1")
	if err := os.MkdirAll(dir, 0o755); err != nil {
		c.t.Fatal(err)
	}
	must := func(err error) {
		if err != nil {
			panic(fmt.Sprintf("harness: prepare %s: %v", id, err))
		}
	}
	lg, err := raft.NewLog(dir)
	must(err)
	must(lg.Open())
	must(lg.Replay())
	ents := c.prepEntries(pr.Ents, members)
	if len(ents) > 0 {
		must(lg.AppendEntries(ents))
	}
	if pr.SnapIdx > 0 {
		var ops []fsmOp
		var sterm uint64
		var cfgData []byte
		for _, e := range ents {
			if int(e.Index) <= pr.SnapIdx {
				sterm = e.Term
				if e.EntryType == raft.OperationEntry {
					ops = append(ops, fsmOp{int(e.Index), int(e.Term), valString(e.Data)})
				}
				if e.EntryType == raft.ConfigurationEntry {
					cfgData = e.Data
				}
			}
		}
		sn, err := raft.NewSnapshotStorage(dir)
		must(err)
		f, err := sn.NewSnapshotFile(uint64(pr.SnapIdx), sterm, cfgData)
		must(err)
		_, err = f.Write(canonicalSnapshot(ops, pr.SnapPad))
		must(err)
		must(f.Close())
		must(lg.Compact(uint64(pr.SnapIdx)))
	}
	must(lg.Close())
	ss, err := raft.NewStateStorage(dir)
	must(err)
	must(ss.SetState(uint64(pr.Term), pr.Vote))
	c.rec.Emit("prepared", Ev{"node": id, "term": pr.Term, "vote": pr.Vote, "snap": pr.SnapIdx, "n": len(pr.Ents)})
	n, err := c.create(id, 1, dir)
	if err != nil {
		c.rec.Emit("new_fail", Ev{"node": id, "inc": 1, "err": err.Error()})
	}
	c.mu.Lock()
	c.nodes[id] = n
	c.mu.Unlock()
	return n
}

// Inject hands a crafted request to node n's handler, as if it came from `from`. It is
// recorded like any other request (send, deliver with m = 1, handled); the response goes
// nowhere.
func (nt *Net) Inject(n *Node, kind, from string, q *WireReq) *RPC {
	c := nt.c
	c.mu.Lock()
	nt.seq++
	r := &RPC{ID: nt.seq, Kind: kind, From: from, FromInc: 0, To: n.id, ch: make(chan struct{})}
	c.mu.Unlock()
	switch kind {
	case "ae":
		es := c.prepEntries(q.Ents, c.ids)
		r.AE = &raft.AppendEntriesRequest{LeaderID: from, Term: uint64(q.Term), PrevLogIndex: uint64(q.Prev), PrevLogTerm: uint64(q.PrevT),
			LeaderCommit: uint64(q.Commit), Entries: es}
	case "rv":
		r.RV = &raft.RequestVoteRequest{CandidateID: from, Term: uint64(q.Term), LastLogIndex: uint64(q.Last), LastLogTerm: uint64(q.LastT), Prevote: q.Pre}
	case "is":
		var cfgData []byte
		m := map[string]string{}
		for _, id := range c.ids {
			m[id] = id
		}
		cfgData, _ = c.codec.EncodeConfiguration(raft.NewConfiguration(1, m))
		full := nt.canon[q.Fill]
		lo, hi := q.Lo, q.Hi
		if hi > len(full) {
			hi = len(full)
		}
		if lo > hi {
			lo = hi
		}
		r.IS = &raft.InstallSnapshotRequest{LeaderID: from, Term: uint64(q.Term), LastIncludedIndex: uint64(q.Index), LastIncludedTerm: uint64(q.ITerm),
			Configuration: cfgData, Bytes: append([]byte{}, full[lo:hi]...), Offset: int64(q.Off), Done: q.Done}
	default:
		return nil
	}
	e := nt.reqEv(r)
	e["inj"] = 1
	c.rec.Emit("send", e)
	go func() {
		nt.handle(r)
		c.mu.Lock()
		r.Phase = 3
		c.mu.Unlock()
	}()
	c.Settle()
	return r
}

// FakeReply answers a request that node p.From has in flight with a crafted response; the
// destination's handler does not run.
func (nt *Net) FakeReply(p *RPC, q *WireReq) {
	c := nt.c
	c.mu.Lock()
	if p.Phase != 0 {
		c.mu.Unlock()
		return
	}
	p.Phase = 2
	c.mu.Unlock()
	switch p.Kind {
	case "ae":
		p.AEr = raft.AppendEntriesResponse{Term: uint64(q.Term), Success: q.Ok, Index: uint64(q.Hint)}
	case "rv":
		p.RVr = raft.RequestVoteResponse{Term: uint64(q.Term), VoteGranted: q.Ok}
	case "is":
		p.ISr = raft.InstallSnapshotResponse{Term: uint64(q.Term), BytesWritten: int64(q.Off)}
	}
	nt.finish(p, nil, "reply")
	c.Settle()
}
