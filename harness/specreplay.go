//go:build verif

package harness

import (
	"fmt"
	"sort"
	"strings"
	"testing/synctest"
	"time"
)

// SpecStep is one step of a TLC behaviour of Raft.tla (written by Gen.tla): the action with
// its arguments and the projection of every node's state after it.
type SpecStep struct {
	A    string              `json:"a"`
	N    string              `json:"n"`
	P    string              `json:"p"`
	V    string              `json:"v"`
	Post map[string]SpecProj `json:"post"`
}

type SpecProj struct {
	Term   int    `json:"term"`
	Vote   string `json:"vote"`
	Role   string `json:"role"`
	Last   int    `json:"last"`
	LastT  int    `json:"lastt"`
	Commit int    `json:"commit"`
	Pend   int    `json:"pend"` // unresolved futures of replicated operations submitted to this incarnation
	Base   int    `json:"base"` // compaction boundary of the log
	Snap   int    `json:"snap"` // label of the newest published snapshot
}

var roleName = map[int]string{0: "L", 1: "F", 2: "P", 3: "C", 4: "D"}

// project reads the same projection off a real node (at quiescence).
func (c *Cluster) project(n *Node) SpecProj {
	if n == nil || !n.running || n.ghost.Load() {
		return SpecProj{Role: "D"}
	}
	st := n.r.Status()
	c.mu.Lock()
	vote := n.pvote
	pend := n.pendingOps
	snap := n.snapIdx
	c.mu.Unlock()
	if vote == "" {
		vote = "Nil"
	}
	return SpecProj{Term: int(st.Term), Vote: vote, Role: roleName[int(st.State)], Last: int(n.lw.inner.LastIndex()),
		LastT: int(n.lw.inner.LastTerm()), Commit: int(st.CommitIndex), Pend: pend,
		Base: int(n.lw.inner.LastIndex()) - n.lw.inner.Size(), Snap: snap}
}

// lapse advances virtual time until node id neither holds a valid lease nor has heard
// from a leader (or voted) within an election timeout: the spec's sticky = FALSE.
func (c *Cluster) lapse(ids ...string) {
	for i := 0; i < 100; i++ {
		ok := true
		c.mu.Lock()
		for _, id := range ids {
			if time.Since(c.contactAt[id]) < c.ET || time.Since(c.leaseAt[id]) < c.Lease {
				ok = false
			}
		}
		c.mu.Unlock()
		if ok {
			return
		}
		time.Sleep(10 * time.Millisecond)
		synctest.Wait()
	}
}

func unq(s string) string { return strings.Trim(s, "\"") }

// specStep turns the spec action into the environment's stimuli, lets the real nodes react,
// and compares the observable projection of every node with the specification's.
func (r *Runner) specStep(k int, st SpecStep) {
	c := r.c
	n, p := unq(st.N), unq(st.P)
	c.rec.Emit("spec", Ev{"k": k, "a": st.A, "n": n, "p": p, "v": unq(st.V)})
	ok := true
	switch st.A {
	case "TimerFire":
		ok = r.Do(Stim{Op: "fire", N: n})
	case "RVExchange":
		c.lapse(n, p)
		ok = r.Do(Stim{Op: "xchg", Kind: "rv", From: n, To: p})
	case "RVHalf":
		c.lapse(p)
		ok = r.Do(Stim{Op: "deliver", Kind: "rv", From: n, To: p})
		r.Do(Stim{Op: "dropresp", Kind: "rv", From: n, To: p})
	case "AEExchange":
		r.Do(Stim{Op: "hb", N: n})
		ok = r.Do(Stim{Op: "xchg", Kind: "ae", From: n, To: p})
	case "AEHalf":
		r.Do(Stim{Op: "hb", N: n})
		ok = r.Do(Stim{Op: "deliver", Kind: "ae", From: n, To: p})
		r.Do(Stim{Op: "dropresp", Kind: "ae", From: n, To: p})
	case "ArmSnapshot":
		ok = r.Do(Stim{Op: "snapnow", N: n})
	case "ISExchange":
		// the whole transfer: as many request/response pairs as the sender's current file
		// offset makes necessary, until the sender goes back to AppendEntries
		ok = false
		for i := 0; i < 5; i++ {
			r.Do(Stim{Op: "hb", N: n})
			if r.match(&Stim{Kind: "is", From: n, To: p}, 0) == nil {
				break
			}
			r.Do(Stim{Op: "xchg", Kind: "is", From: n, To: p})
			ok = true
		}
	case "ClientSubmit":
		ok = r.Do(Stim{Op: "submit", N: n, Val: unq(st.V), K: 0, TO: 60000})
	case "Crash":
		ok = r.Do(Stim{Op: "crash", N: n})
	case "Restart":
		ok = r.Do(Stim{Op: "restart", N: n})
	default:
		ok = false
	}
	c.Settle()
	ids := make([]string, 0, len(st.Post))
	for id := range st.Post {
		ids = append(ids, id)
	}
	sort.Strings(ids)
	diffs := []string{}
	for _, id := range ids {
		want := st.Post[id]
		got := c.project(c.node(id))
		if want.Role == "D" || got.Role == "D" {
			if want.Role != got.Role {
				diffs = append(diffs, fmt.Sprintf("%s: role spec=%s code=%s", id, want.Role, got.Role))
			}
			continue
		}
		if got != want {
			diffs = append(diffs, fmt.Sprintf("%s: spec=%+v code=%+v", id, want, got))
		}
	}
	if len(diffs) > 0 || !ok {
		r.drift++
		if r.drift <= 3 {
			c.rec.Emit("drift", Ev{"k": k, "a": st.A, "n": n, "p": p, "applied": ok, "diffs": diffs})
		}
	} else {
		r.matched++
	}
}
