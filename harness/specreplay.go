//go:build verif

package harness

import (
	"fmt"
	"sort"
	"strings"
	"testing/synctest"
	"time"
)

// SpecStep is one step of a TLC behaviour of Raft.tla (written by Gen.tla): the action with
// its arguments and the projection of every node's state after it.
type SpecStep struct {
	A    string              `json:"a"`
	N    string              `json:"n"`
	P    string              `json:"p"`
	V    string              `json:"v"`
	Post map[string]SpecProj `json:"post"`
	// asynchronous grain: the message the action is about, and the requests the step put on the wire
	M     *SpecMsg  `json:"m,omitempty"`
	Spawn []SpecMsg `json:"spawn,omitempty"`
	Lost  []SpecMsg `json:"lost,omitempty"` // timed model: messages that expire with this Tick
}

// SpecMsg identifies a request of the specification's `net': kind, endpoints of the request,
// the sender's round number (phase says whether the action handles the request or its response).
type SpecMsg struct {
	Kind  string `json:"kind"` // rv | ae
	Phase string `json:"phase"`
	From  string `json:"from"`
	To    string `json:"to"`
	Round int    `json:"round"`
	Pre   bool   `json:"pre"`
	Term  int    `json:"term"`
}

func (m *SpecMsg) key() string { return fmt.Sprintf("%s/%s/%s/%d", m.Kind, m.From, m.To, m.Round) }

type SpecProj struct {
	Term   int    `json:"term"`
	Vote   string `json:"vote"`
	Role   string `json:"role"`
	Last   int    `json:"last"`
	LastT  int    `json:"lastt"`
	Commit int    `json:"commit"`
	Pend   int    `json:"pend"` // unresolved futures of replicated operations submitted to this incarnation
	Base   int    `json:"base"` // compaction boundary of the log
	Snap   int    `json:"snap"` // label of the newest published snapshot
	CfgI   int    `json:"cfgi"` // index of the configuration in force
}

var roleName = map[int]string{0: "L", 1: "F", 2: "P", 3: "C", 4: "D"}

// project reads the same projection off a real node (at quiescence).
func (c *Cluster) project(n *Node) SpecProj {
	if n == nil || !n.running || n.ghost.Load() {
		return SpecProj{Role: "D"}
	}
	st := n.r.Status()
	c.mu.Lock()
	vote := n.pvote
	pend := n.pendingOps
	snap := n.snapIdx
	c.mu.Unlock()
	if vote == "" {
		vote = "Nil"
	}
	return SpecProj{Term: int(st.Term), Vote: vote, Role: roleName[int(st.State)], Last: int(n.lw.inner.LastIndex()),
		LastT: int(n.lw.inner.LastTerm()), Commit: int(st.CommitIndex), Pend: pend,
		Base: int(n.lw.inner.LastIndex()) - n.lw.inner.Size(), Snap: snap, CfgI: int(n.r.Configuration().Index)}
}

// lapse advances virtual time until node id neither holds a valid lease nor has heard
// from a leader (or voted) within an election timeout: the spec's sticky = FALSE.
func (c *Cluster) lapse(ids ...string) {
	if c.timed {
		return // RaftTimed.tla: the clock is the specification's, nothing is free
	}
	for i := 0; i < 100; i++ {
		ok := true
		c.mu.Lock()
		for _, id := range ids {
			if time.Since(c.contactAt[id]) < c.ET || time.Since(c.leaseAt[id]) < c.Lease {
				ok = false
			}
		}
		c.mu.Unlock()
		if ok {
			return
		}
		time.Sleep(10 * time.Millisecond)
		synctest.Wait()
	}
}

func unq(s string) string { return strings.Trim(s, "\"") }

// specStep turns the spec action into the environment's stimuli, lets the real nodes react,
// and compares the observable projection of every node with the specification's.
func (r *Runner) specStep(k int, st SpecStep) {
	c := r.c
	n, p := unq(st.N), unq(st.P)
	c.rec.Emit("spec", Ev{"k": k, "a": st.A, "n": n, "p": p, "v": unq(st.V)})
	ok := true
	mark := c.net.seqNow()
	if r.rpcMap == nil {
		r.rpcMap = map[string]*RPC{}
	}
	var mapped *RPC
	if st.M != nil {
		mapped = r.rpcMap[st.M.key()]
		// mapped requests must survive: no overflow drops from here on
		c.net.maxPerLink = 0
	}
	switch st.A {
	case "Tick":
		// messages that have been in flight for D are lost, then one unit of time passes
		c.net.maxPerLink = 0
		for i := range st.Lost {
			if q := r.rpcMap[st.Lost[i].key()]; q != nil && q.Phase != 3 {
				op := "dropreq"
				if q.Phase == 2 {
					op = "dropresp"
				}
				r.doRPC(Stim{Op: op, Kind: q.Kind, From: q.From, To: q.To}, q)
			}
		}
		ok = r.Do(Stim{Op: "adv", D: r.sc.TickMS})
	case "LeaseRead":
		c.net.maxPerLink = 0
		ok = r.Do(Stim{Op: "submit", N: n, Val: fmt.Sprintf("ld%d", k), K: 2, TO: 60000})
	case "TimerFireA":
		c.net.maxPerLink = 0
		ok = r.Do(Stim{Op: "fire", N: n})
	case "StartRound":
		c.net.maxPerLink = 0
		ok = r.Do(Stim{Op: "hb", N: n})
	case "ClientRead":
		c.net.maxPerLink = 0
		ok = r.Do(Stim{Op: "submit", N: n, Val: fmt.Sprintf("rd%d", k), K: 1, TO: 60000})
	case "RVHandle", "AEHandle", "ISHandle":
		if mapped == nil || mapped.Phase != 0 {
			ok = false
			break
		}
		if st.A == "RVHandle" {
			c.lapse(st.M.To)
		}
		r.doRPC(Stim{Op: "deliver", Kind: mapped.Kind, From: mapped.From, To: mapped.To}, mapped)
	case "RVReply", "AEReply", "ISReply":
		if mapped == nil || mapped.Phase != 2 {
			ok = false
			break
		}
		if st.A == "RVReply" {
			c.lapse(st.M.From)
		}
		r.doRPC(Stim{Op: "reply", Kind: mapped.Kind, From: mapped.From, To: mapped.To}, mapped)
	case "Lose":
		if mapped == nil || mapped.Phase == 3 {
			ok = false
			break
		}
		op := "dropreq"
		if mapped.Phase == 2 {
			op = "dropresp"
		}
		r.doRPC(Stim{Op: op, Kind: mapped.Kind, From: mapped.From, To: mapped.To}, mapped)
	case "TimerFire":
		if !c.timed {
			// the step stands for a stretch of time (Raft.tla: Elapse): every leader gets an idle round in
			time.Sleep(c.HB + 5*time.Millisecond)
			synctest.Wait()
		}
		ok = r.Do(Stim{Op: "fire", N: n})
	case "RVExchange":
		c.lapse(n, p)
		ok = r.Do(Stim{Op: "xchg", Kind: "rv", From: n, To: p})
	case "RVHalf":
		c.lapse(p)
		ok = r.Do(Stim{Op: "deliver", Kind: "rv", From: n, To: p})
		r.Do(Stim{Op: "dropresp", Kind: "rv", From: n, To: p})
	case "AEExchange":
		r.Do(Stim{Op: "hb", N: n})
		ok = r.Do(Stim{Op: "xchg", Kind: "ae", From: n, To: p})
	case "AEHalf":
		r.Do(Stim{Op: "hb", N: n})
		ok = r.Do(Stim{Op: "deliver", Kind: "ae", From: n, To: p})
		r.Do(Stim{Op: "dropresp", Kind: "ae", From: n, To: p})
	case "AddVoter", "AddNonVoter", "RemoveServer":
		to := 60000
		if r.sc.MemberTOMS > 0 {
			// the futures of earlier membership calls have timed out when this one is made
			to = r.sc.MemberTOMS
			r.Do(Stim{Op: "adv", D: to + 10})
		}
		if st.A == "RemoveServer" {
			ok = r.Do(Stim{Op: "remove", N: n, ID: p, TO: to})
		} else {
			ok = r.Do(Stim{Op: "add", N: n, ID: p, V: st.A == "AddVoter", TO: to})
		}
	case "ArmSnapshot":
		if r.sc.SnapWindow {
			// the specification's takeSnapshot is two steps: park the real one after publication
			ok = r.Do(Stim{Op: "gate", N: n, W: "after:snap_close"})
		}
		ok = r.Do(Stim{Op: "snapnow", N: n})
	case "AdoptSnapshot":
		c.rec.Emit("step", Ev{"s": Stim{Op: "release", N: n, W: "after:snap_close"}})
		if nd := c.node(n); nd != nil {
			nd.fsm.mu.Lock()
			again := nd.fsm.snapNow
			nd.fsm.mu.Unlock()
			nd.fsm.Release("after:snap_close")
			// a snapshot that was requested while this one was parked parks as well (armed before the
			// released goroutine can get that far: the state machine's Snapshot takes virtual time)
			if again {
				nd.fsm.Arm("after:snap_close")
			}
		} else {
			ok = false
		}
	case "ISExchange":
		// the whole transfer: as many request/response pairs as the sender's current file
		// offset makes necessary, until the sender goes back to AppendEntries
		ok = false
		for i := 0; i < 5; i++ {
			r.Do(Stim{Op: "hb", N: n})
			if r.match(&Stim{Kind: "is", From: n, To: p}, 0) == nil {
				break
			}
			r.Do(Stim{Op: "xchg", Kind: "is", From: n, To: p})
			ok = true
		}
	case "ClientSubmit":
		ok = r.Do(Stim{Op: "submit", N: n, Val: unq(st.V), K: 0, TO: 60000})
	case "Crash":
		ok = r.Do(Stim{Op: "crash", N: n})
	case "Restart":
		ok = r.Do(Stim{Op: "restart", N: n})
	default:
		ok = false
	}
	c.Settle()
	// bind the requests this step put on the wire (in the specification) to the real ones
	for i := range st.Spawn {
		sp := &st.Spawn[i]
		var best *RPC
		for _, p := range c.net.Pending() {
			if p.ID <= mark || p.Phase != 0 || p.Kind != sp.Kind || p.From != sp.From || p.To != sp.To {
				continue
			}
			if sp.Kind == "rv" && (p.RV.Prevote != sp.Pre || int(p.RV.Term) != sp.Term) {
				continue
			}
			if best == nil || p.ID < best.ID {
				best = p
			}
		}
		if best != nil {
			r.rpcMap[sp.key()] = best
		} else {
			ok = false
		}
	}
	ids := make([]string, 0, len(st.Post))
	for id := range st.Post {
		ids = append(ids, id)
	}
	sort.Strings(ids)
	diffs := []string{}
	for _, id := range ids {
		want := st.Post[id]
		got := c.project(c.node(id))
		if want.Role == "D" || got.Role == "D" {
			if want.Role != got.Role {
				diffs = append(diffs, fmt.Sprintf("%s: role spec=%s code=%s", id, want.Role, got.Role))
			}
			continue
		}
		if got != want {
			diffs = append(diffs, fmt.Sprintf("%s: spec=%+v code=%+v", id, want, got))
		}
	}
	if len(diffs) > 0 || !ok {
		r.drift++
		if r.drift <= 3 {
			c.rec.Emit("drift", Ev{"k": k, "a": st.A, "n": n, "p": p, "applied": ok, "diffs": diffs})
		}
	} else {
		r.matched++
	}
}
