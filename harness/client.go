//go:build verif

package harness

import (
	"fmt"
	"time"

	"github.com/jmsadair/raft"
)

func errClass(err error) string {
	switch err {
	case nil:
		return "ok"
	case raft.ErrNotLeader:
		return "not_leader"
	case raft.ErrInvalidLease:
		return "invalid_lease"
	case raft.ErrTimeout:
		return "timeout"
	case raft.ErrPendingConfiguration:
		return "pending_cfg"
	case raft.ErrNoCommitThisTerm:
		return "no_commit_this_term"
	}
	return "error"
}

// Submit invokes SubmitOperation on node n from a client goroutine; invocation and
// resolution are events. kind: 0 replicated, 1 linearizable read, 2 lease read.
func (c *Cluster) Submit(n *Node, val string, kind int, timeout time.Duration) int {
	c.mu.Lock()
	c.clientSeq++
	op := c.clientSeq
	c.mu.Unlock()
	if !n.created {
		return op
	}
	c.rec.Emit("invoke", Ev{"op": op, "node": n.id, "inc": n.inc, "call": "submit", "kind": kind, "val": val, "timeout": int(timeout / time.Microsecond)})
	c.clients.Add(1)
	if kind == 0 {
		c.mu.Lock()
		n.pendingOps++
		c.mu.Unlock()
	}
	go func() {
		defer c.clients.Done()
		defer c.recoverCall(op, n)
		f := n.r.SubmitOperation([]byte(val), raft.OperationType(kind), timeout)
		res := f.Await()
		if kind == 0 {
			c.mu.Lock()
			n.pendingOps--
			c.mu.Unlock()
		}
		if n.ghost.Load() {
			return // the client of a crashed process never hears back
		}
		e := Ev{"op": op, "node": n.id, "inc": n.inc, "call": "submit", "kind": kind, "val": val, "res": errClass(res.Error())}
		if res.Error() == nil {
			r := res.Success()
			e["index"], e["term"], e["rval"] = int(r.Operation.LogIndex), int(r.Operation.LogTerm), valString(r.Operation.Bytes)
			if fr, ok := r.ApplicationResponse.(FSMResp); ok {
				e["count"], e["last"] = fr.Count, fr.Last
			} else {
				e["count"], e["last"] = -1, -1
			}
		}
		c.rec.Emit("return", e)
	}()
	return op
}

// Member invokes AddServer (add=true) or RemoveServer on node n.
func (c *Cluster) Member(n *Node, add bool, id string, voter bool, timeout time.Duration) int {
	c.mu.Lock()
	c.clientSeq++
	op := c.clientSeq
	c.mu.Unlock()
	if !n.created {
		return op
	}
	call := "remove"
	if add {
		call = "add"
	}
	c.rec.Emit("invoke", Ev{"op": op, "node": n.id, "inc": n.inc, "call": call, "id": id, "voter": voter, "timeout": int(timeout / time.Microsecond)})
	c.clients.Add(1)
	go func() {
		defer c.clients.Done()
		defer c.recoverCall(op, n)
		var f raft.Future[raft.Configuration]
		if add {
			f = n.r.AddServer(id, id, voter, timeout)
		} else {
			f = n.r.RemoveServer(id, timeout)
		}
		res := f.Await()
		if n.ghost.Load() {
			return
		}
		e := Ev{"op": op, "node": n.id, "inc": n.inc, "call": call, "id": id, "voter": voter, "res": errClass(res.Error())}
		if res.Error() == nil {
			cfg := res.Success()
			e["cfg"] = cfgEv(&cfg)
		}
		c.rec.Emit("return", e)
	}()
	return op
}

func (c *Cluster) recoverCall(op int, n *Node) {
	if p := recover(); p != nil {
		c.rec.Emit("panic", Ev{"op": op, "node": n.id, "inc": n.inc, "msg": fmt.Sprint(p)})
	}
}
