#!/usr/bin/env python3
"""Regenerate MANIFEST.json from the property table (vlib/props.py) and the texts below."""
import json, os, subprocess, sys
ROOT = os.path.dirname(os.path.dirname(os.path.abspath(__file__)))
sys.path.insert(0, os.path.join(ROOT, "vlib"))
import props

TEXT = {
 "C01": ("Raft.tla invariant NoViolation (StateMachineSafety observed at every commit) checked exhaustively by TLC for 3 voters within the cfg's bounds; "
         "on the code, every Apply of every node/incarnation in corpus attack schedules, replayed TLC behaviours and seeded adversary runs (1-5 voters, drops, "
         "delays, reordering, duplicates, crashes at storage boundaries) is judged by the TLA+ monitor clauses SMSafety and ApplyOrder.", "6 C01"),
 "C02": ("ElectionSafety is an invariant of Raft.tla (exhaustive, 3 voters) and a monitor clause over leadership evidence (Leader status, replication requests "
         "naming a leader, the node's own no-op append); attack schedules are TLC counterexamples of the spec with one vote-protecting mechanism removed.", "6 C02"),
 "C03": ("Linearizability reduced to three log-order clauses (future truth, at-most-once, real-time order) evaluated by TLC on recorded client histories "
         "with concurrent clients, leader changes and time-outs.", "6 C03"),
 "C04": ("CommittedDurable invariant in the crash configuration of Raft.tla; on the code the durable logs are reconstructed from the real file-backed "
         "storage calls and the majority clause is evaluated at every acknowledgement and first application, across crashes of any subset.", "6 C04"),
 "C06": ("LogMatching invariant of Raft.tla in every configuration and monitor clause over reconstructed durable logs after every storage call; "
         "the AppendEntries relation (reject => unchanged, success => agrees, no non-conflicting or committed entry removed) is evaluated on every "
         "handled request delivered by the step scheduler, including stale, duplicated and reordered ones.", "6 C06"),
 "C07": ("LeaderCompleteness and LeaderAppendOnly observed at BecomeLeader in Raft.tla (exhaustive within bounds); monitor clause at the linearisation "
         "point of becomeLeader on the real node against everything reported committed so far.", "6 C07"),
 "C08": ("Term monotonicity, one real vote per term across crashes (history variable `voted`), votes only for up-to-date logs and prevote inertness: "
         "Raft.tla with Crash/Restart, monitor clauses over persisted term/vote writes, replies and restarts.", "6 C08"),
 "C14": ("Crash of a real node immediately before/after any of its storage operations (image of the directory, restart through the constructors); "
         "monitors require construction/restart to succeed, no fatal abort, the replayed log to equal the reconstruction, and all safety clauses.", "6 C14"),
 "C09": ("C01/C02/C07 clauses plus configuration agreement, truthful membership futures, voter-only vote requests, voter-majority elections and commits are evaluated by TLC on recorded "
         "executions with add / promote / remove requests (incl. the leader) under drops, delays, partitions and crashes, in a free family and in an S5-free family (no node ever two "
         "configurations behind). Known finding S5 is matched by its signature only.", "6 C09, 12.4"),
 "C16": ("The scenario driver establishes and maintains a healthy leader (prompt automatic network among a majority, free timers there) after a random prelude, while the adversary owns every "
         "other node's links, timer, crashes and restarts; the monitor requires the leader to keep leading and no term of the majority to grow while the period lasts; the adversary also delivers vote requests of minority nodes with higher terms to majority nodes. Mechanism clause on every execution: a node raises its term only after "
         "one round of prevote requests for that term was granted by a majority (CandidateWithoutPrevoteMajority; found defect S21). Design: Raft.tla with vote requests and replies as separate "
         "steps (MC_async3: late, lost, reordered replies), invariant PrevoteForThisTerm; counterexamples under weakenings replayed.", "6 C16, 12.11, 12.17"),
 "C10": ("Every snapshot published on any node (taken locally or installed) is compared by TLC with the operations applied up to its label (none later, none missing, in order) and with the configuration "
         "committed at the label; every restored state and every Apply is checked for double or skipped application. Scenarios: automatic and scheduler-triggered snapshots, gated Snapshot / Apply / "
         "Restore calls, crashes after publication, payloads from tens of bytes to several transfer chunks, lagging followers.", "6 C10"),
 "C11": ("After every log operation the real log's last index and size are compared with the log the operations denote; discards must not drop committed entries; commit and applied index never move "
         "backwards within an incarnation; no snapshot older than the applied index is restored; an installed snapshot equals, byte for byte (hash, size, label), a snapshot some node produced. "
         "Scenarios as C10 with stale, duplicated and reordered chunks.", "6 C11"),
 "C17": ("Time-driven adversary on an automatic network whose per-message delay the harness bounds below election timeout - lease duration, one virtual clock, free timers: partitions (both / one direction, "
         "non-voters optionally left connected), leader changes, crashes, writes and lease reads at random instants; TLC evaluates the freshness clause on every successful lease read and the refusal clause (a voter's reply less than a lease duration before the read). "
         "Design: RaftTimed.tla (Raft.tla with a discrete clock: contact age, lease, message age bounded by D) checked with L + D < E; its counterexamples with one mechanism removed "
         "(lease not checked, recent-contact guard weakened) are replayed on real nodes tick by tick.", "6 C17, 12.11"),
 "C12": ("LogStore.tla models the log file at system-call grain (two writes per record, fsync, ftruncate, temp file + rename) with a crash between any two calls and inside a write; "
         "TLC checks Recover/InMemoryIsReturned/FileDenotesLog exhaustively. On the code, operation programs run through the public Log API in a driver process that is killed by a real "
         "SIGKILL on entry to every storage system call (strace fault injection), plus byte prefixes of interrupted appends; every image is reopened, extended and reopened again and the "
         "directory histories are judged by StoreMon.tla (TLC) against StoreAbs.tla's Allowed set.", "6 C12, 12.6"),
 "C13": ("FileStores.tla models SetState (tmp + rename) and snapshot writing (tmp directory, metadata, chunks, rename | discard) with crashes anywhere and the constructors' cleanup; TLC checks "
         "Recover exhaustively. On the code: SIGKILL at every storage system call of SetState / snapshot programs (0 B to multi-chunk payloads, many snapshots per directory), reopen through the "
         "constructors, judged by StoreMon.tla.", "6 C13, 12.6"),
 "C15": ("Every scenario of the core and crash families ends with the fault-free period (all members restarted, prompt reliable network, free timers); the monitor requires one leader, a fresh "
         "operation completed and every running member caught up within the bound (reported only if also missed at four times the bound). Also from 10 044 TLC-enumerated post-fault cluster states (HealStates.tla). "
         "Design: Heal.tla - invariant Recoverable (from every reachable state of the faulty model, for every majority of voters left running, some node's recovery strategy, "
         "a pure expression over the spec's own step operators, ends converged: AG EF); its counterexamples under weakenings are replayed with the rest kept down.", "6 C15, 12.13"),
 "C18": ("Api.tla is the lifecycle automaton and call alphabet of the public API; TLC enumerates every call program up to the bound; each is executed on a real node steered into each role "
         "(follower, pre-candidate, candidate, leader, created, stopped) and interleaved with cluster activity; monitors: no panic, no abort, futures resolve by their time-out, none stays "
         "unresolved, a membership change that commits under its submitter succeeds.", "6 C18"),
 "C05": ("Read clauses (no stale read, reads do not go backwards) evaluated by TLC on recorded histories of linearizable reads racing with leader changes.", "6 C05"),
}

TECH = "TLA+ spec (Raft.tla) model-checked with TLC; TLC-generated behaviours and weakened-spec counterexamples replayed on real nodes; recorded traces validated by TLA+ monitors (TLC)"


def main():
    repo_head = subprocess.run(["git", "-C", "/repo", "log", "--format=%h %s"], capture_output=True, text=True).stdout.splitlines()
    hooks = [l.split()[0] for l in repo_head if " verif:" in l or l.split(" ", 1)[1].startswith("verif:")]
    allp = [json.loads(l) for l in open(os.path.join(ROOT, "properties.jsonl"))]
    na_reason = {}
    p = os.path.join(ROOT, "tools", "not_applicable.json")
    if os.path.exists(p):
        na_reason = json.load(open(p))
    checks, na = [], []
    for pr in allp:
        pid = pr["id"]
        if pid in props.PROPS and pid in TEXT and pid not in na_reason:
            text, ref = TEXT[pid]
            checks.append({
                "property_id": pid,
                "quick_cmd": "./check %s --tier quick" % pid,
                "thorough_cmd": "./check %s --tier thorough" % pid,
                "evidence_file": "evidence/%s.json" % pid,
                "replay_cmd_template": "./check %s --replay {path}" % pid,
                "engine": "tlc+harness",
                "level_claimed": {"category": "model_checking", "text": text, "design_ref": "DESIGN.md section " + ref},
                "level_note": "Exhaustive only for the design within the stated constants; the code-side statement is 'held on every explored, TLC-validated execution'. Trusted: TLC, the Go harness (virtual time, transport, recording wrappers over the real storages), the monitor clauses.",
                "technique": TECH})
        else:
            na.append({"property_id": pid, "reason": na_reason.get(pid, "check not built yet in this round (planned, see DESIGN.md section 11)")})
    m = {"version": 1, "setup_cmd": "./check setup",
         "hooks": {"guard": "verif", "enable": "go1.26.8 test -tags verif (GOTOOLCHAIN=local GOFLAGS=-mod=mod GOPROXY=off)",
                   "baseline_off_cmd": "cd /repo && GOFLAGS=-mod=mod GOPROXY=off GOSUMDB=off go test -vet=off -count=1 -timeout 25m ./...",
                   "source_commits": hooks, "add_only": True},
         "engines": [{"name": "tlc+harness", "path": "check", "serves_properties": [c["property_id"] for c in checks],
                      "kind_free_text": "TLA+ specification + TLC (exhaustive/simulation) + Go harness replaying TLC behaviours on real nodes under virtual time + TLC trace validation with property monitors"}],
         "checks": checks,
         "notes": "Exit 2 of a check means no verdict (build/tool failure, recorder mismatch), never a violation. known_findings.json lists fixed and known defects.",
         "not_applicable": na}
    json.dump(m, open(os.path.join(ROOT, "MANIFEST.json"), "w"), indent=1)
    print("checks:", [c["property_id"] for c in checks], "not_applicable:", [n["property_id"] for n in na])


if __name__ == "__main__":
    main()
