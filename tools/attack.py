#!/usr/bin/env python3
"""Attack-schedule generation (DESIGN.md 5.2): ask TLC for a counterexample of the
specification with one protective mechanism switched off (W = {name}), and turn it into a
corpus scenario: the spec steps with the projection of every node after each step.

  tools/attack.py <W-name> <family> [key=value ...]   e.g.  VoteNoVotedFor core MaxTerm=2 MaxTimer=5
Options: Node=a,b,c InitVoters=a,b,c invariants=ElectionSafety,NoViolation mode=bfs|sim timeout=600
"""
import json, os, re, subprocess, sys, shutil, time
ROOT = os.path.dirname(os.path.dirname(os.path.abspath(__file__)))
sys.path.insert(0, os.path.join(ROOT, "vlib"))
import driver

DEFAULT = dict(Node="a,b,c", InitVoters="a,b,c", Value="x,y", MaxTerm="2", MaxLog="4", MaxTimer="5", MaxAE="2",
               MaxClient="1", MaxCrash="0", MaxHalf="0", MaxSnap="0", SnapSize="1", MaxRead="0", MaxCfg="0", AsyncKinds="", MaxNet="0",
               invariants="ElectionSafety,LogMatching,NoViolation,CommittedDurable", mode="bfs", timeout="600", depth="60", workers="8",
               timed="0", E="3", L="1", D="1", module="MC_core3", keepdown="")

# RaftTimed.tla wraps the asynchronous actions; the replay driver knows them by their untimed names
TIMED_NAMES = {"TTimerFire": "TimerFireA", "TStartRound": "StartRound", "TClientSubmit": "ClientSubmit", "TRVHandle": "RVHandle",
               "TRVReply": "RVReply", "TAEHandle": "AEHandle", "TAEReply": "AEReply"}


def proj(s):
    lg = s["log"]
    ents = lg["ents"]
    last = lg["base"] + len(ents)
    lastt = ents[-1]["t"] if ents else lg["bterm"]
    pend = s.get("pend", [])
    return {"term": s["term"], "vote": s["vote"], "role": s["role"], "last": last, "lastt": lastt, "commit": s["commit"],
            "pend": len(pend) if not isinstance(pend, int) else pend, "base": lg["base"], "snap": s.get("snap", {}).get("idx", 0), "cfgi": s.get("cfg", {}).get("idx", 0)}


def main():
    w, family = sys.argv[1], sys.argv[2]
    opt = dict(DEFAULT)
    for kv in sys.argv[3:]:
        k, v = kv.split("=", 1)
        opt[k] = v
    d = os.path.join(driver.OUT, "attack-" + w.split(",")[0] + dict(kv.split("=", 1) for kv in sys.argv[3:]).get("suffix", ""))
    shutil.rmtree(d, ignore_errors=True)
    os.makedirs(d)
    timed = opt["timed"] == "1"
    driver.stage_spec(d, ["Raft.tla", "MC_core3.tla", "RaftTimed.tla", "Heal.tla"])
    setv = lambda v: "{" + ", ".join(x for x in v.split(",") if x) + "}"
    strset = lambda v: "{" + ", ".join('"%s"' % x for x in v.split(",") if x) + "}"
    cfg = "CONSTANTS\n  Node = %s\n  InitVoters = %s\n  Value = %s\n  Nil = Nil\n" % (setv(opt["Node"]), setv(opt["InitVoters"]), setv(opt["Value"]))
    for k in ("MaxTerm", "MaxLog", "MaxTimer", "MaxAE", "MaxClient", "MaxCrash", "MaxHalf", "MaxNet", "MaxSnap", "SnapSize", "MaxRead", "MaxCfg"):
        cfg += "  %s = %s\n" % (k, opt[k])
    cfg += "  AsyncKinds = %s\n  W = %s\n  Gen = TRUE\n  MayTimeout = %s\n" % (strset(opt["AsyncKinds"]), strset(w), setv(opt.get("MayTimeout", opt["Node"])))
    # links=ab,cd : only these pairs of nodes may exchange messages (role script)
    cfg += "  MayLink = {%s}\n" % ", ".join("{%s, %s}" % (x[0], x[1]) for x in opt.get("links", "").split(",") if x)
    if timed:
        cfg += "  E = %s\n  L = %s\n  D = %s\n  TP = %d\n  InitAge = %s\nINIT TInit\nNEXT TNext\nINVARIANTS %s\nCHECK_DEADLOCK FALSE\n" % (
            opt["E"], opt["L"], opt["D"], 2 * int(opt["E"]), opt["E"], " ".join(opt["invariants"].split(",")))
    else:
        cfg += "SPECIFICATION Spec\nINVARIANTS %s\nCHECK_DEADLOCK FALSE\n" % " ".join(opt["invariants"].split(","))
    if not timed and opt["mode"] == "bfs" and opt.get("symmetry", "1") == "1":
        cfg += "SYMMETRY Symm\n"
    open(os.path.join(d, "atk.cfg"), "w").write(cfg)
    cmd = driver.tlc_cmd(["-Xmx12g"]) + ["-workers", opt["workers"], "-metadir", os.path.join(d, "md"), "-config", "atk.cfg",
                                          "-dumpTrace", "json", os.path.join(d, "cex.json")]
    if opt["mode"] == "sim":
        cmd += ["-simulate", "-depth", opt["depth"]]
    cmd += ["RaftTimed.tla" if timed else opt["module"] + ".tla"]
    t0 = time.time()
    try:
        r = subprocess.run(cmd, cwd=d, capture_output=True, text=True, timeout=int(opt["timeout"]))
        out = r.stdout
        open(os.path.join(d, "tlc.out"), "w").write(out)
    except subprocess.TimeoutExpired:
        print("%s: no counterexample within %ss" % (w, opt["timeout"]))
        shutil.rmtree(os.path.join(d, "md"), ignore_errors=True)
        return 3
    shutil.rmtree(os.path.join(d, "md"), ignore_errors=True)
    m = re.search(r"Invariant (\w+) is violated", out)
    if not m or not os.path.exists(os.path.join(d, "cex.json")):
        print("%s: TLC finished without counterexample (%.0fs): %s" % (w, time.time() - t0, (re.findall(r"\d+ states generated.*", out) or [""])[-1]))
        return 3
    cex = json.load(open(os.path.join(d, "cex.json")))["counterexample"]["action"]
    def msg(m):
        """a message of `net' as the replay driver needs it: request kind, endpoints of the REQUEST, round"""
        if m["kind"] in ("rvq", "aeq"):
            return {"kind": m["kind"][:2], "phase": "req", "from": m["from"], "to": m["to"], "round": m["round"],
                    "pre": bool(m.get("pre", False)), "term": m["term"]}
        q = m["req"]
        return {"kind": m["kind"][:2], "phase": "resp", "from": q["from"], "to": q["to"], "round": m["round"],
                "pre": bool(q.get("pre", False)), "term": q["term"]}

    def key(m):
        return json.dumps(m, sort_keys=True)

    steps = []
    for pre, act, post in cex:
        ctx = act.get("context", {})
        name = TIMED_NAMES.get(act["name"], act["name"])
        before = {key(m) for m in pre[1].get("net", [])}
        after = {key(m) for m in post[1].get("net", [])}
        if name == "AddServer":
            name = "AddVoter" if ctx.get("voter") else "AddNonVoter"
        lost = []
        if name == "Tick":
            lost = [msg(m) for m in pre[1].get("net", []) if key(m) not in after]
        if name in ("Next", "TNext"):
            # TLC does not split `\\E m \\in net : ...`: recover the action and its message from the change of `net'
            gone = [m for m in pre[1].get("net", []) if key(m) not in after]
            assert len(gone) == 1, gone
            m0 = gone[0]
            came = [m for m in post[1].get("net", []) if key(m) not in before]
            if m0["kind"] == "rvq" and any(m["kind"] == "rvr" for m in came):
                name = "RVHandle"
            elif m0["kind"] == "aeq" and any(m["kind"] == "aer" for m in came):
                name = "AEHandle"
            elif m0["kind"] == "rvr" and (came or pre[1]["ns"] != post[1]["ns"]):
                name = "RVReply"
            elif m0["kind"] == "aer" and pre[1]["ns"] != post[1]["ns"]:
                name = "AEReply"
            elif pre[1]["ns"] == post[1]["ns"]:
                name = "Lose"
            else:
                name = "RVReply" if m0["kind"] == "rvr" else "AEReply"
            ctx = {"m": m0}
        st = {"a": name, "n": ctx.get("n", ""), "p": ctx.get("p", ctx.get("n", "")), "v": ctx.get("v", ""),
              "post": {k: proj(v) for k, v in post[1]["ns"].items()}}
        if "m" in ctx:
            st["m"] = msg(ctx["m"])
            st["n"], st["p"] = st["m"]["from"], st["m"]["to"]
        if lost:
            st["lost"] = lost
        st["spawn"] = [msg(m) for m in post[1].get("net", []) if key(m) not in before and m["kind"] in ("rvq", "aeq")]
        steps.append(st)
    voters = [x for x in opt["InitVoters"].split(",") if x]
    extra = [x for x in opt["Node"].split(",") if x and x not in voters]
    w0 = w.split(",")[0]
    sc = {"name": "atk-" + w0 + opt.get("suffix", ""), "family": family, **({"snap_window": True} if "Env:SnapWindow" in w else {}), **({"member_to_ms": int(opt["member_to_ms"])} if opt.get("member_to_ms") else {}), **({"heal_keep_down": opt["keepdown"].split(",")} if opt["keepdown"] else {}), "attack": w, "violates": m.group(1), "voters": voters, "extra": extra, "controlled": True, "auto": False,
          "heal": True, "heal_et": 60, "spec": steps, **({"tick_ms": 1000, "et_ms": 1000 * int(opt["E"]), "lease_ms": 1000 * int(opt["L"])} if timed else {}),
          "comment": "TLC counterexample (%s, %s) of Raft.tla with W = {%s}; constants %s" % (opt["mode"], m.group(1), w,
                     {k: opt[k] for k in ("Node", "InitVoters", "MaxTerm", "MaxTimer", "MaxAE", "MaxCrash", "MaxHalf", "AsyncKinds") + (("E", "L", "D") if timed else ())})}
    os.makedirs(os.path.join(ROOT, "corpus", family), exist_ok=True)
    path = os.path.join(ROOT, "corpus", family, "atk-%s%s.json" % (w0, opt.get("suffix", "")))
    json.dump(sc, open(path, "w"), indent=0)
    print("%s: %d-step counterexample of %s in %.0fs -> %s" % (w, len(steps), m.group(1), time.time() - t0, path))
    print("   ", " ".join("%s(%s%s)" % (s["a"], s["n"], "," + s["p"] if s["p"] != s["n"] else "") for s in steps))
    return 0


if __name__ == "__main__":
    sys.exit(main())
