#!/bin/bash
# Development tool: detection matrix of the saved seeded changes.
#   tools/seedmatrix.sh            every seed against the check(s) listed below
# For each seed: apply seeded/<id>/patch.diff to /repo, run the listed quick checks without TLC model
# checking (VERIF_NOMC=1; the design-level part does not depend on /repo), restore /repo.
# Evidence of these runs goes to /tmp/seed-evidence, never into the tree.
# Never run while another check is running: /repo and bin/harness.test are shared.
cd /verif
declare -A CHECKS=(
 [C01]="C01" [C01b]="C04" [C02b]="C02" [C03]="C03" [C03b]="C10 C03" [C03c]="C03" [C04]="C12" [C04b]="C04"
 [C05]="C05" [C05b]="C05" [C06]="C06" [C06b]="C06" [C07]="C07" [C07b]="C07" [C08]="C08" [C08b]="C08"
 [C09]="C09" [C09b]="C09" [C09c]="C09" [C10]="C10" [C10b]="C10" [C10c]="C01" [C11]="C11" [C11b]="C12" [C11c]="C11"
 [C12]="C12" [C12b]="C12" [C13]="C13" [C13b]="C13" [C14]="C14" [C14b]="C14" [C15]="C15" [C15b]="C15"
 [C16]="C16" [C16b]="C16" [C04c]="C04" [C05c]="C05" [C14c]="C14" [C15c]="C15"
 [C06c]="C06" [C07c]="C07" [C08c]="C08" [C16c]="C16"
 [C17]="C17 C16" [C17b]="C17" [C18]="C18" [C18b]="C18"
)
for id in $(ls seeded | sort); do
  cks=${CHECKS[$id]:-}
  [ -z "$cks" ] && { echo "$id: (not in the matrix: see its meta.json)"; continue; }
  git -C /repo apply /verif/seeded/$id/patch.diff 2>/dev/null || { echo "$id: patch does not apply at $(git -C /repo log -1 --format=%h)"; continue; }
  res=""
  for p in $cks; do
    n=$(VERIF_EVIDENCE_DIR=/tmp/seed-evidence VERIF_NOMC=1 ./check $p --tier quick --seed ${SEED:-1} 2>&1 | grep -c "^VIOLATION")
    res="$res $p:$n"
  done
  git -C /repo checkout -- .
  echo "$id:$res"
done
git -C /repo status --short | grep -v file-test
