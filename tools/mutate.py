#!/usr/bin/env python3
"""Development tool (not a registered check): apply each source mutation of mutants.json to
/repo's working tree, make sure it builds and the fast unit tests still pass, run the quick
check of the properties it should break, undo it.  Prints the detection matrix."""
import json, os, subprocess, sys, time
ROOT = os.path.dirname(os.path.dirname(os.path.abspath(__file__)))
ENV = dict(os.environ, GOFLAGS="-mod=mod", GOPROXY="off", GOSUMDB="off", VERIF_NOMC="1")

def sh(cmd, **kw):
    return subprocess.run(cmd, shell=True, capture_output=True, text=True, env=ENV, **kw)

def main():
    only = sys.argv[1:]
    ms = json.load(open(os.path.join(ROOT, "tools", "mutants.json")))
    assert sh("git -C /repo status --porcelain --untracked-files=no").stdout.strip() == "", "/repo has local edits"
    rows = []
    for m in ms:
        if only and not any(o in m["name"] for o in only):
            continue
        p = os.path.join("/repo", m["file"])
        src = open(p).read()
        if src.count(m["old"]) != 1:
            rows.append((m["name"], "PATTERN-NOT-FOUND", "")); continue
        try:
            open(p, "w").write(src.replace(m["old"], m["new"]))
            b = sh("cd /repo && go build ./... && go vet . 2>&1 | head -5")
            if b.returncode != 0:
                rows.append((m["name"], "DOES-NOT-BUILD", b.stderr[-300:])); continue
            t = sh("cd /repo && go test -vet=off -count=1 -run 'TestAppendEntries|TestRequestVote|TestInstallSnapshot|TestNewRaft|TestMarkAsVerified|TestAppliable' . 2>&1 | tail -3")
            unit = "unit-pass" if "ok" in t.stdout else "UNIT-FAIL"
            res = []
            for prop in m["props"]:
                t0 = time.time()
                r = sh("cd %s && ./check %s --tier quick --seed %d" % (ROOT, prop, 1))
                viol = [l for l in r.stdout.splitlines() if l.startswith("VIOLATION")]
                clause = viol[0].split("#")[1].strip()[:70] if viol else ""
                drift = "drift" if "CONFORMANCE-DRIFT" in r.stdout else ""
                res.append("%s:rc=%d %s %s (%.0fs)" % (prop, r.returncode, clause, drift, time.time() - t0))
            rows.append((m["name"], unit, " | ".join(res)))
        finally:
            sh("git -C /repo checkout -- .")
        print(rows[-1], flush=True)
    print("\n== detection matrix ==")
    for r in rows:
        print("%-40s %-10s %s" % r)

if __name__ == "__main__":
    main()
