#!/usr/bin/env python3
"""Development tool: run one generated scenario many times (different process seeds) and
report how the heal phase ended.  usage: tools/rerun.py <family> <seed> <index> <times>"""
import sys, os, json, collections
ROOT = os.path.dirname(os.path.dirname(os.path.abspath(__file__)))
sys.path.insert(0, os.path.join(ROOT, "vlib"))
import driver, props
fam, seed, idx, times = sys.argv[1], int(sys.argv[2]), int(sys.argv[3]), int(sys.argv[4])
driver.build_harness()
sc = props.FAMILIES[fam](seed, idx, "quick")
scs = []
for k in range(times):
    s = json.loads(json.dumps(sc)); s["name"] = "%s-r%d" % (sc["name"], k); scs.append(s)
wd = os.path.join(driver.OUT, "rerun")
import shutil; shutil.rmtree(wd, ignore_errors=True)
traces, aborts, leaks = driver.run_jobs(scs, wd, 7, per_child=max(1, times // 16))
c = collections.Counter()
bad = []
for t in traces:
    for e in driver.read_trace(t):
        if e["ev"] == "heal_done":
            c[e["conv"]] += 1
            if e["conv"] == "no": bad.append((t, e["sc"]))
print(dict(c), "aborts", len(aborts), "leaks", len(leaks))
for b in bad[:5]: print(b)
