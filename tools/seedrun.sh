#!/bin/bash
# Development tool: apply a saved seeded change to /repo, run quick checks, restore /repo.
#   tools/seedrun.sh <id> <prop> [<prop>...]
ID=$1; shift
cd /verif
git -C /repo apply /verif/seeded/$ID/patch.diff || { echo "patch does not apply"; exit 2; }
for p in "$@"; do
  echo "== $ID vs check $p"
  VERIF_EVIDENCE_DIR=/tmp/seed-evidence VERIF_NOMC=1 ./check $p --tier quick --seed ${SEED:-1} 2>&1 | grep -E "VIOLATION|^property|DRIFT|NO-VERDICT" | cut -c1-300 | head -4
done
git -C /repo checkout -- .
