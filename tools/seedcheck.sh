#!/bin/bash
# Development tool: confirm a seeded change produced by a sub-agent and run the checks against it.
#   tools/seedcheck.sh <id> <demo-run-regex> <prop> [<prop>...]      (uses /tmp/seed/wt-<id>, /tmp/seed/out-<id>)
# Steps: patch applies and builds; demo fails with it and passes without it (in the scratch worktree);
# existing suite passes with it (in a private network namespace: the suite binds fixed addresses);
# then the patch is applied to /repo, each quick check is run, and /repo is restored.
set -u
ID=$1; RX=$2; shift 2
WT=/tmp/seed/wt-$ID; OUT=/tmp/seed/out-$ID
export GOFLAGS=-mod=mod GOPROXY=off GOSUMDB=off
cd $WT || exit 2
git checkout -q -- . ; rm -f seed_demo*_test.go
git apply --check $OUT/patch.diff || { echo "PATCH DOES NOT APPLY"; exit 2; }
cp $OUT/*_test.go . 2>/dev/null
echo "== demo without change"; go test -vet=off -count=1 -run "$RX" . 2>&1 | tail -3
git apply $OUT/patch.diff
go build ./... && go vet . >/dev/null 2>&1; echo "build rc=$?"
echo "== demo with change"; go test -vet=off -count=1 -run "$RX" . 2>&1 | tail -4
if [ "${SUITE:-1}" = "1" ]; then
  echo "== existing suite with change (unshare -n)"
  rm -f seed_demo*_test.go; mkdir -p /tmp/seed/hold-$ID; 
  unshare -n bash -c "ip link set lo up 2>/dev/null; cd $WT && go test -vet=off -count=1 -timeout 25m ./... 2>&1 | grep -E '^(ok|FAIL|---)' | head"
fi
git checkout -q -- . ; rm -f seed_demo*_test.go
cd /verif
git -C /repo apply $OUT/patch.diff || exit 2
for p in "$@"; do
  echo "== check $p"
  VERIF_EVIDENCE_DIR=/tmp/seed-evidence VERIF_NOMC=1 ./check $p --tier quick --seed ${SEED:-1} 2>&1 | grep -E "VIOLATION|KNOWN|^property|DRIFT|NO-VERDICT" | cut -c1-330 | head -6
done
git -C /repo checkout -- .
git -C /repo status --short | grep -v file-test
