CONSTANTS
  Node = {a, b, c}
  InitVoters = {a, b, c}
  Value = {x, y, z}
  Nil = Nil
  MaxTerm = 4
  MaxLog = 6
  MaxTimer = 10
  MaxAE = 10
  MaxClient = 3
  MaxCrash = 0
  MaxHalf = 2
  MaxCfg = 0
  MaxRead = 1
  MaxSnap = 0
  SnapSize = 1
  AsyncKinds = {"rv", "ae"}
  MaxNet = 4
  W = {}
  MayTimeout = {a, b, c}
  MayLink = {}
  Gen = TRUE
  OutDir = "OUTDIR"
SPECIFICATION GSpec
INVARIANTS Export ElectionSafety NoViolation
CHECK_DEADLOCK FALSE
