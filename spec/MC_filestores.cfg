CONSTANTS
  MaxOps = 4
  MaxCrash = 2
  Vals = {"v1", "v2"}
  Chunks = 2
  W = {}
SPECIFICATION Spec
INVARIANTS Recover PublishedComplete
CHECK_DEADLOCK FALSE
