\* snapshots at request grain: InstallSnapshot requests and replies as separate steps (two chunks), with replication rounds
CONSTANTS
  Node = {a, b, c}
  InitVoters = {a, b, c}
  Value = {x}
  Nil = Nil
  MaxTerm = 2
  MaxLog = 4
  MaxTimer = 2
  MaxAE = 4
  MaxClient = 1
  MaxCrash = 0
  MaxHalf = 0
  MaxCfg = 0
  MaxRead = 0
  MaxSnap = 1
  SnapSize = 2
  AsyncKinds = {"ae", "is"}
  MaxNet = 2
  W = {}
  MayTimeout = {a}
  MayLink = {}
  Gen = FALSE
SPECIFICATION Spec
INVARIANTS ElectionSafety LogMatching NoViolation TypeOK
CHECK_DEADLOCK FALSE
