\* C16 in the timed model with one removal: leader a in prompt contact with b; c campaigns before the
\* period, is removed by a, and is free (RaftHealthy.tla)
CONSTANTS
  Node = {a, b, c}
  InitVoters = {a, b, c}
  Value = {x}
  Nil = Nil
  E = 4
  L = 2
  D = 1
  TP = 4
  InitAge = 4
  HLead = a
  HMaj = {a, b}
  PreCampaign = {c}
  MaxTerm = 3
  MaxLog = 4
  MaxTimer = 3
  MaxAE = 6
  MaxClient = 0
  MaxCrash = 0
  MaxHalf = 0
  MaxCfg = 1
  MaxRead = 0
  MaxSnap = 0
  SnapSize = 1
  AsyncKinds = {"rv", "ae"}
  MaxNet = 4
  W = {}
  MayTimeout = {a, c}
  MayLink = {}
  Gen = TRUE
INIT HInit
NEXT HNext
INVARIANTS HealthyStable TSafe
CHECK_DEADLOCK FALSE
