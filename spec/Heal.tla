-------------------------------- MODULE Heal --------------------------------
(***************************************************************************)
(* C15 at design level: from EVERY state the fault schedules of the        *)
(* bounded model can reach, once the faults stop the cluster CAN recover   *)
(* (AG EF converged) - with all voters running and with any one majority   *)
(* of them (the others staying down for good).                             *)
(*                                                                         *)
(* TLC has no EF operator; the witness is computed instead.  The steps of  *)
(* the fault-free period are functions of the node states (FireNode,       *)
(* RVPair, AEPair of Raft.tla - the operators the actions themselves are   *)
(* made of), so a recovery STRATEGY is a pure expression: the designated   *)
(* node's election timer fires, it asks every running voter (prevote round,*)
(* then the real round), repeating while it learns higher terms; as leader *)
(* it replicates to every running member until nothing changes.            *)
(* `Recoverable' holds in a state iff for every majority U of the voters   *)
(* SOME node of U is a designated node whose strategy ends converged.      *)
(* A state without such a node is a trap: no fair schedule whatever gets   *)
(* the cluster out of it (the strategy tries every running voter, and      *)
(* within a majority the holder of the most up-to-date log must succeed).  *)
(* Weakenings that make traps: CandidateNoPrevote is harmless here, but    *)
(* PrevoteReplyTermIgnored (a pre-candidate does not adopt the higher term *)
(* of a rejection) and NoStaleAEReplyCheck-style bugs are found.           *)
(***************************************************************************)
EXTENDS Raft, SequencesExt

UpF(f, n) == f[n].role # "D"

FireF(f, n) ==
  LET s == f[n] IN
  IF s.role \in {"F", "P", "C"} /\ IsVoter(s, n) THEN [f EXCEPT ![n] = Fin(s, FireNode(s, n))] ELSE f

\* contacts have lapsed (sticky = FALSE) and the election loop does not wait (stay = FALSE)
RVF(f, n, p) ==
  LET s == f[n] IN
  IF /\ n # p /\ UpF(f, n) /\ UpF(f, p)
     /\ s.role \in {"P", "C"} /\ s.votes > 0 /\ (s.role = "P") = s.pre
     /\ p \in VotersOf(s) /\ p \notin s.asked /\ IsVoter(s, n)
    THEN LET r == RVPair(s, f[p], n, p, FALSE, FALSE) IN [f EXCEPT ![p] = Fin(f[p], r.h), ![n] = Fin(s, r.c)]
    ELSE f

AEF(f, n, p) ==
  LET s == f[n] IN
  IF /\ n # p /\ UpF(f, n) /\ UpF(f, p)
     /\ s.role = "L" /\ p \in MembersOf(s) /\ s.next[p] > s.li.idx
    THEN LET r == AEPair(s, f[p], n, p) IN [f EXCEPT ![p] = Fin(f[p], r.h), ![n] = Fin(s, r.c)]
    ELSE f

Peers == SetToSeq(Node)

RECURSIVE RVAll(_, _, _)
RVAll(f, n, k) == IF k > Len(Peers) THEN f ELSE RVAll(RVF(f, n, Peers[k]), n, k + 1)
RECURSIVE AEAll(_, _, _)
AEAll(f, n, k) == IF k > Len(Peers) THEN f ELSE AEAll(AEF(f, n, Peers[k]), n, k + 1)

\* time-out, prevote round, real round
ElectOnce(f, n) == RVAll(RVAll(FireF(f, n), n, 1), n, 1)
RECURSIVE Elect(_, _, _)
Elect(f, n, k) == IF k = 0 \/ f[n].role = "L" \/ ~UpF(f, n) THEN f ELSE Elect(ElectOnce(f, n), n, k - 1)
RECURSIVE Repl(_, _, _)
Repl(f, n, k) == IF k = 0 THEN f ELSE LET g == AEAll(f, n, 1) IN IF g = f THEN f ELSE Repl(g, n, k - 1)

\* a node that believes it leads tries that first (and may learn that it does not)
Strategy(f, n) == Repl(Elect(Repl(Elect(Repl(f, n, MaxLog + 3), n, 4), n, MaxLog + 3), n, 4), n, MaxLog + 3)

ConvergedF(f, n, U) ==
  /\ f[n].role = "L" /\ f[n].commit = LastIdx(f[n].log)
  /\ \A p \in U : f[p].log = f[n].log /\ f[p].commit = f[n].commit /\ f[p].term = f[n].term

Majorities == {U \in SUBSET InitVoters : Cardinality(U) * 2 > Cardinality(InitVoters)}

\* the fault-free period starts by restarting what is down (within U); the rest stays down
HealStart(U) == [n \in Node |-> IF n \in U THEN (IF ns[n].role = "D" THEN [ns[n] EXCEPT !.role = "F"] ELSE ns[n])
                                ELSE [ns[n] EXCEPT !.role = "D"]]

RecoverableWith(U) == \E n \in U : ConvergedF(Strategy(HealStart(U), n), n, U)
Recoverable == \A U \in Majorities : RecoverableWith(U)
RecoverableAllUp == RecoverableWith(InitVoters)

Symm == Permutations(Node)
=============================================================================
