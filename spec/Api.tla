-------------------------------- MODULE Api --------------------------------
(***************************************************************************)
(* The public API as a lifecycle automaton of one node plus the call       *)
(* alphabet (DESIGN.md section 6, C18).  TLC enumerates every call         *)
(* sequence up to MaxLen; each reachable `prog' is one implementation      *)
(* test, executed on a real node that the scheduler has steered into each  *)
(* role.  `Expect' is the result class the documentation promises for the  *)
(* lifecycle calls; it is conformance information, the property itself     *)
(* (no panic, no abort, no hang, futures resolve) is judged by Monitors.   *)
(***************************************************************************)
EXTENDS Integers, Sequences, TLC

CONSTANTS MaxLen

Lifecycle == {"bootstrap", "bootstrap_other", "start", "stop", "restart"}
Submits   == {"rep", "rep_empty", "lin", "lease", "badtype", "rep_short", "lin_short"}
Members   == {"add_self", "add_voter", "add_nonvoter", "add_empty", "remove_self", "remove_member", "remove_stranger"}
Queries   == {"status_string", "cfg_string"}
Calls == Lifecycle \cup Submits \cup Members \cup Queries

VARIABLES life,   \* "created" | "running" | "stopped"
          booted, \* a configuration exists
          start,  \* the initial situation, kept for the export
          prog    \* the calls so far
vars == <<life, booted, start, prog>>

Init == /\ life \in {"created", "running"} /\ booted \in BOOLEAN /\ (life = "running" => booted) /\ prog = <<>>
        /\ start = life \o (IF booted THEN "+boot" ELSE "")

Expect(c) ==
  CASE c = "bootstrap"       -> IF booted THEN "error" ELSE "ok"
    [] c = "bootstrap_other" -> "error"
    [] c \in {"start", "restart", "stop"} -> "ok"
    [] OTHER -> "any"

Do(c) ==
  /\ Len(prog) < MaxLen
  /\ prog' = Append(prog, c \o ":" \o Expect(c))
  /\ start' = start
  /\ life' = CASE c \in {"start", "restart"} -> "running"
               [] c = "stop" -> IF life = "created" THEN "created" ELSE "stopped"
               [] OTHER -> life
  /\ booted' = (booted \/ c = "bootstrap" \/ c \in {"start", "restart"})

Next == \E c \in Calls : Do(c)
Spec == Init /\ [][Next]_vars

RECURSIVE Join(_)
Join(q) == IF q = <<>> THEN "" ELSE q[1] \o (IF Len(q) > 1 THEN "," ELSE "") \o Join(Tail(q))
\* every program is printed once it is complete (side effect of an always-true invariant)
Emit == Len(prog) < MaxLen \/ PrintT("PROG|" \o start \o "|" \o Join(prog))
=============================================================================
