\* two voters and one joining node: add, promote, remove (one change at a time, S5-free environment): exhaustive
CONSTANTS
  Node = {a, b, c}
  InitVoters = {a, b}
  Value = {x, y}
  Nil = Nil
  MaxTerm = 2
  MaxLog = 4
  MaxTimer = 4
  MaxAE = 4
  MaxClient = 1
  MaxCrash = 0
  MaxHalf = 0
  MaxCfg = 3
  MaxRead = 0
  MaxSnap = 0
  SnapSize = 1
  AsyncKinds = {}
  MaxNet = 0
  W = {"Env:S5Free"}
  MayTimeout = {a, b, c}
  MayLink = {}
  Gen = FALSE
SPECIFICATION Spec
INVARIANTS ElectionSafety LogMatching NoViolation TypeOK
CHECK_DEADLOCK FALSE
