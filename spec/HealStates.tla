----------------------------- MODULE HealStates -----------------------------
(***************************************************************************)
(* C15 from enumerated cluster states: TLC enumerates durable states of a  *)
(* three-voter cluster that fault schedules can leave behind - divergent   *)
(* log tails (pairwise LogMatching), stale and far-ahead terms, optionally *)
(* one voter down for good - and each is handed to real nodes constructed  *)
(* over it, followed only by the fault-free period.  The cluster must      *)
(* converge (one leader, a fresh operation applied, running members equal).*)
(***************************************************************************)
EXTENDS Raft, Json

CONSTANTS K, T

RECURSIVE Mono(_)
Mono(n) == IF n = 0 THEN {<<>>} ELSE {Append(q, t) : q \in Mono(n - 1), t \in 1..T}
NonDecr(q) == \A j \in 1..(Len(q) - 1) : q[j] <= q[j + 1]
TermSeqs == UNION {{q \in Mono(n) : NonDecr(q)} : n \in 0..K}
EntryAt(i, t) == Entry(t, "noop", Nil)
FullLog(q) == <<BootEntry>> \o [j \in 1..Len(q) |-> EntryAt(j + 1, q[j])]
LastT(q) == IF Len(q) = 0 THEN 1 ELSE q[Len(q)]
Matching(fa, fb) == \A i \in 1..Min(Len(fa), Len(fb)) : fa[i].t = fb[i].t => \A j \in 1..i : fa[j] = fb[j]

Gaps == {0, 1, 3}
Cases ==
  { [qa |-> qa, qb |-> qb, qc |-> qc, ta |-> LastT(qa) + ga, tb |-> LastT(qb) + gb, tc |-> LastT(qc) + gc, down |-> dn] :
      qa \in TermSeqs, qb \in TermSeqs, qc \in TermSeqs, ga \in Gaps, gb \in Gaps, gc \in Gaps, dn \in {"none", "c"} }
WellFormed(x) ==
  /\ Matching(FullLog(x.qa), FullLog(x.qb)) /\ Matching(FullLog(x.qa), FullLog(x.qc)) /\ Matching(FullLog(x.qb), FullLog(x.qc))
\* Two more conditions of reachability are applied where the cases are turned into scenarios
\* (vlib/props.py, fam_healstates_all; found by the first thorough run, DESIGN.md 12.19): an entry of
\* term T exists only if at least two of the three nodes have reached T (T had a leader), and a
\* node whose current term has a leader has voted for it (votes are not enumerated here).

KindNo(k) == IF k = "cfg" THEN 2 ELSE IF k = "noop" THEN 0 ELSE 1
Wire(es) == [j \in 1..Len(es) |-> [i |-> j, t |-> es[j].t, k |-> KindNo(es[j].k), v |-> ""]]
Out(x) == [a |-> [term |-> x.ta, ents |-> Wire(FullLog(x.qa))], b |-> [term |-> x.tb, ents |-> Wire(FullLog(x.qb))],
           c |-> [term |-> x.tc, ents |-> Wire(FullLog(x.qc))], down |-> x.down]

VARIABLE case
HInit == /\ case \in {x \in Cases : WellFormed(x)}
         /\ ns = [n \in Node |-> InitNode] /\ net = {} /\ budget = <<>> /\ elected = {} /\ comm = <<>> /\ voted = {} /\ acked = 0 /\ viol = {}
HNext == UNCHANGED <<case, vars>>
Emit == PrintT("CASE|" \o ToJson(Out(case)))
=============================================================================
