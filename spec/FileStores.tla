----------------------------- MODULE FileStores -----------------------------
(***************************************************************************)
(* File-level model of the term/vote storage (state_storage.go) and of the *)
(* snapshot storage (snapshot_storage.go) with crashes (C13).              *)
(*   SetState: create tmp-state*, write length, write body, rename over    *)
(*             state.bin.                                                  *)
(*   Snapshot: mkdir tmp-snapshot*, create snapshot.bin, create and write  *)
(*             metadata.json, sync+close it, write chunks, sync, close,    *)
(*             rename the directory to snapshot-<ns> | remove it (Discard).*)
(*   Constructors remove everything whose name starts with "tmp".          *)
(* Property: after a crash anywhere, construction succeeds at once, the    *)
(* term/vote read back is the last returned or the one being written, and  *)
(* the snapshot returned is the most recent one whose writer was closed    *)
(* successfully (or the one being closed, once its rename happened).       *)
(* W = {"WalkIntoRemoved"} is the behaviour before fix 9c4b619.            *)
(***************************************************************************)
EXTENDS Integers, Sequences, FiniteSets, TLC

CONSTANTS MaxOps, MaxCrash, Vals, Chunks, W

VARIABLES
  sfile,   \* content of state.bin: a value, or "none"
  stmp,    \* tmp-state file: "none" | [v, st] with st in 0..2 (created, length written, body written)
  sret,    \* last value whose SetState returned
  pub,     \* published snapshot directories, in publication order: sequence of snapshot ids
  tdir,    \* temporary snapshot directory: "none" | [id, st, n]  st: stage, n: chunks written
  cret,    \* ids of snapshots whose Close returned, in order
  fl,      \* operation in flight: [op |-> "none"] | [op |-> "set", v] | [op |-> "snap", id, discard]
  up,      \* the process is running (storages constructed)
  nextId, budget, failed
vars == <<sfile, stmp, sret, pub, tdir, cret, fl, up, nextId, budget, failed>>

None == [op |-> "none"]
NoTmp == [v |-> "none", st |-> -1]
NoDir == [id |-> 0, st |-> -1, n |-> 0]
Init == /\ sfile = "none" /\ stmp = NoTmp /\ sret = "none" /\ pub = <<>> /\ tdir = NoDir /\ cret = <<>>
        /\ fl = None /\ up = TRUE /\ nextId = 1 /\ budget = [ops |-> MaxOps, crash |-> MaxCrash] /\ failed = FALSE

Last(q) == IF q = <<>> THEN 0 ELSE q[Len(q)]

BeginSet(v) ==
  /\ up /\ fl = None /\ budget.ops > 0
  /\ fl' = [op |-> "set", v |-> v] /\ stmp' = [v |-> v, st |-> 0]
  /\ budget' = [budget EXCEPT !.ops = budget.ops - 1]
  /\ UNCHANGED <<sfile, sret, pub, tdir, cret, up, nextId, failed>>

StepSet ==
  /\ up /\ fl.op = "set"
  /\ IF stmp # NoTmp /\ stmp.st < 2 THEN
        stmp' = [stmp EXCEPT !.st = stmp.st + 1] /\ UNCHANGED <<sfile, sret, fl>>
     ELSE IF stmp # NoTmp THEN          \* rename
        sfile' = stmp.v /\ stmp' = NoTmp /\ UNCHANGED <<sret, fl>>
     ELSE                                \* return
        sret' = fl.v /\ fl' = None /\ UNCHANGED <<sfile, stmp>>
  /\ UNCHANGED <<pub, tdir, cret, up, nextId, budget, failed>>

\* stages of a snapshot writer: 0 dir made, 1 data file created, 2 metadata file created,
\* 3 metadata written, 4 metadata synced+closed (NewSnapshotFile returns), then chunks,
\* 5 data synced, 6 data closed, then rename (Close) -- or removal (Discard)
BeginSnap(discard) ==
  /\ up /\ fl = None /\ budget.ops > 0
  /\ fl' = [op |-> "snap", id |-> nextId, discard |-> discard]
  /\ tdir' = [id |-> nextId, st |-> 0, n |-> 0]
  /\ nextId' = nextId + 1
  /\ budget' = [budget EXCEPT !.ops = budget.ops - 1]
  /\ UNCHANGED <<sfile, stmp, sret, pub, cret, up, failed>>

StepSnap ==
  /\ up /\ fl.op = "snap"
  /\ IF tdir # NoDir /\ tdir.st < 4 THEN tdir' = [tdir EXCEPT !.st = tdir.st + 1] /\ UNCHANGED <<pub, cret, fl>>
     ELSE IF tdir # NoDir /\ tdir.st = 4 /\ tdir.n < Chunks THEN tdir' = [tdir EXCEPT !.n = tdir.n + 1] /\ UNCHANGED <<pub, cret, fl>>
     ELSE IF tdir # NoDir /\ fl.discard THEN tdir' = NoDir /\ UNCHANGED <<pub, cret, fl>>
     ELSE IF tdir # NoDir /\ tdir.st < 6 THEN tdir' = [tdir EXCEPT !.st = tdir.st + 1] /\ UNCHANGED <<pub, cret, fl>>
     ELSE IF tdir # NoDir THEN pub' = Append(pub, tdir.id) /\ tdir' = NoDir /\ UNCHANGED <<cret, fl>>   \* rename
     ELSE /\ cret' = IF fl.discard THEN cret ELSE Append(cret, fl.id)                                      \* return
          /\ fl' = None /\ UNCHANGED <<pub, tdir>>
  /\ UNCHANGED <<sfile, stmp, sret, up, nextId, budget, failed>>

Crash ==
  /\ up /\ budget.crash > 0
  /\ up' = FALSE
  /\ budget' = [budget EXCEPT !.crash = budget.crash - 1]
  /\ UNCHANGED <<sfile, stmp, sret, pub, tdir, cret, fl, nextId, failed>>

\* constructors (temporary-file cleanup) + State() + SnapshotFile()
Reopen ==
  /\ ~up
  /\ LET walkErr == "WalkIntoRemoved" \in W /\ tdir # NoDir /\ tdir.st >= 1      \* non-empty tmp directory
         sval == sfile
         sOk == sval = sret \/ (fl.op = "set" /\ sval = fl.v)
         snap == Last(pub)
         cOk == snap = Last(cret) \/ (fl.op = "snap" /\ ~fl.discard /\ snap = fl.id)
     IN
     /\ failed' = (failed \/ walkErr \/ ~sOk \/ ~cOk)
     /\ sret' = sval
     /\ cret' = IF snap # Last(cret) /\ cOk THEN Append(cret, snap) ELSE cret
  /\ stmp' = NoTmp /\ tdir' = NoDir /\ fl' = None /\ up' = TRUE
  /\ UNCHANGED <<sfile, pub, nextId, budget>>

Next == (\E v \in Vals : BeginSet(v)) \/ StepSet \/ (\E d \in BOOLEAN : BeginSnap(d)) \/ StepSnap \/ Crash \/ Reopen
Spec == Init /\ [][Next]_vars

Recover == ~failed
\* no partially written snapshot is ever visible under a published name
PublishedComplete == \A j \in 1..Len(pub) : pub[j] < nextId
=============================================================================
