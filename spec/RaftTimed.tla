------------------------------ MODULE RaftTimed ------------------------------
(***************************************************************************)
(* Raft.tla with clocks (DESIGN.md 3.5), for the properties that are       *)
(* stated under a timing assumption (C17; the stickiness half of C16).     *)
(* One global clock (perfect clocks), discrete ticks:                      *)
(*   age[n]    time since node n's lastContact, saturating at E            *)
(*   lease[n]  remaining validity of n's leader lease (0 = not valid)      *)
(*   mage[m]   age of message m; no tick may pass while a message is D old *)
(*             (it must be handled or lost first): D bounds every delay    *)
(* The places where the code consults the clock are no longer free         *)
(* choices: a vote request is ignored iff the receiver holds a valid lease *)
(* or heard from a leader less than E ago; an election starts only after E *)
(* without contact; a lease-based read is served iff the lease is valid at *)
(* that moment.  The lease is renewed for L when a replication round       *)
(* reaches its quorum, at the time the REPLY is processed (as in the code).*)
(* Assumption of C17: L + D < E.  The configuration MC_timed_bad (L + D =  *)
(* E) shows that the model is not vacuous: TLC finds a stale lease read.   *)
(***************************************************************************)
EXTENDS Raft

CONSTANTS E, L, D,
  TP,       \* least time between two expiries of a node's election ticker (the code sleeps a random
            \* time in [E, 2E) and is then released by the scheduler): E in model checking, 2E when
            \* behaviours are generated for replay (the real ticker has then certainly expired)
  InitAge   \* age of every node's last contact initially: 0 = just started, E = idle for long

VARIABLES age, lease, mage, tage
tvars == <<vars, age, lease, mage, tage>>

Sat(x, m) == IF x >= m THEN m ELSE x + 1

TInit ==
  /\ Init
  /\ age = [n \in Node |-> InitAge]    \* start() sets lastContact = now
  /\ tage = [n \in Node |-> IF InitAge = 0 THEN 0 ELSE 2 * E]
  /\ lease = [n \in Node |-> 0]
  /\ mage = [m \in {} |-> 0]

\* new messages are born with age 0, delivered ones disappear
MageNext == mage' = [m \in net' |-> IF m \in net /\ m \in DOMAIN mage THEN mage[m] ELSE 0]

\* role changes reset the operation manager, hence the lease (a new lease is not valid)
LeaseAfter(n, renewed) ==
  IF renewed THEN L
  ELSE IF ns'[n].role # ns[n].role THEN 0
  ELSE lease[n]

\* time passes; a message that has been in flight for D is lost with the tick (no delivery is
\* later than D; losing a message earlier than that is the same behaviour as never handling it,
\* so there is no separate loss action in the timed model)
Tick ==
  /\ age' = [n \in Node |-> Sat(age[n], E)]
  /\ lease' = [n \in Node |-> IF lease[n] > 0 THEN lease[n] - 1 ELSE 0]
  /\ net' = {m \in net : mage[m] < D}
  /\ tage' = [n \in Node |-> Sat(tage[n], 2 * E)]
  /\ mage' = [m \in net' |-> mage[m] + 1]
  /\ UNCHANGED <<ns, budget, elected, comm, voted, acked, viol>>

\* election(): only after an election timeout without contact
TTimerFire(n) ==
  /\ age[n] >= E /\ tage[n] >= TP
  /\ tage' = [tage EXCEPT ![n] = 0]
  /\ TimerFireA(n)
  /\ MageNext
  /\ age' = age
  /\ lease' = [lease EXCEPT ![n] = LeaseAfter(n, FALSE)]

\* RequestVote: ignored iff valid lease or recent contact; a granted real vote refreshes the contact
TRVHandle(m) ==
  /\ UNCHANGED tage
  /\ m \in net /\ m.kind = "rvq" /\ Up(m.to)
  /\ LET sticky == lease[m.to] > 0 \/ age[m.to] < E
         h == HandleRV(ns[m.to], m, sticky) IN
     /\ ns' = [ns EXCEPT ![m.to] = h.s]
     /\ net' = (net \ {m}) \cup {[kind |-> "rvr", from |-> m.to, to |-> m.from, round |-> m.round, req |-> m, reply |-> h.reply]}
     /\ Hist1(m.to, h.s)
     /\ age' = [age EXCEPT ![m.to] = IF h.reply.ok /\ ~m.pre THEN 0 ELSE age[m.to]]
     /\ lease' = [lease EXCEPT ![m.to] = IF h.s.role # ns[m.to].role THEN 0 ELSE lease[m.to]]
  /\ UNCHANGED budget
  /\ MageNext

TRVReply(m) ==
  /\ UNCHANGED tage
  /\ RVReply(m)
  /\ MageNext
  /\ age' = age
  /\ lease' = [lease EXCEPT ![m.to] = LeaseAfter(m.to, FALSE)]

TStartRound(n) ==
  /\ UNCHANGED tage
  /\ StartRound(n)
  /\ MageNext
  /\ UNCHANGED <<age, lease>>

\* AppendEntries with a current term refreshes the contact
TAEHandle(m) ==
  /\ UNCHANGED tage
  /\ AEHandle(m)
  /\ MageNext
  /\ age' = [age EXCEPT ![m.to] = IF m.term >= ns[m.to].term THEN 0 ELSE age[m.to]]
  /\ lease' = [lease EXCEPT ![m.to] = LeaseAfter(m.to, FALSE)]

\* the round of m reaches its quorum with this reply: lease renewed now
QuorumNow(m) ==
  LET s == ns[m.to]
      p == m.from
      live == p \in MembersOf(s) /\ s.role = "L" /\ m.req.term = s.term
      counts == live /\ m.reply.term <= s.term /\ (IsVoter(s, p) \/ "HBCountsNonVoters" \in W)
      c1 == Get(s.cnt, <<"h", m.round>>, IF IsVoter(s, m.to) THEN 1 ELSE 0) + 1 IN
  counts /\ Quorum(s, c1)

TAEReply(m) ==
  /\ UNCHANGED tage
  /\ AEReply(m)
  /\ MageNext
  /\ age' = age
  /\ lease' = [lease EXCEPT ![m.to] = LeaseAfter(m.to, QuorumNow(m) /\ ns'[m.to].role = "L")]

TLose(m) ==
  /\ UNCHANGED tage
  /\ Lose(m)
  /\ MageNext
  /\ UNCHANGED <<age, lease>>

TClientSubmit(n, v) ==
  /\ UNCHANGED tage
  /\ ClientSubmit(n, v)
  /\ UNCHANGED <<age, lease, mage>>

\* lease-based read: answered with data iff the node leads, has committed in its term, has
\* applied its read index (eager) and holds a valid lease at this moment.  Stale iff an
\* operation acknowledged before now is not in the state it is served from.
LeaseRead(n) ==
  LET s == ns[n] IN
  /\ s.role = "L" /\ CommittedThisTerm(s)
  /\ lease[n] > 0 \/ "LeaseNotChecked" \in W
  /\ s.commit < acked
  /\ viol' = viol \cup {"StaleLeaseRead"}
  /\ UNCHANGED <<ns, net, budget, elected, comm, voted, acked, age, lease, mage, tage>>

TNext ==
  \/ Tick
  \/ \E n \in Node : TTimerFire(n) \/ TStartRound(n) \/ LeaseRead(n)
  \/ \E n \in Node, v \in Value : TClientSubmit(n, v)
  \/ \E m \in net : TRVHandle(m) \/ TRVReply(m) \/ TAEHandle(m) \/ TAEReply(m)

TSpec == TInit /\ [][TNext]_tvars

\* C17
LeaseFresh == "StaleLeaseRead" \notin viol
\* the untimed safety properties hold a fortiori
TSafe == ElectionSafety /\ "StateMachineSafety" \notin viol
=============================================================================
