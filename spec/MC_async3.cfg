\* three voters, vote requests and replies as separate steps (late, lost and reordered replies): exhaustive
CONSTANTS
  Node = {a, b, c}
  InitVoters = {a, b, c}
  Value = {x}
  Nil = Nil
  MaxTerm = 2
  MaxLog = 4
  MaxTimer = 3
  MaxAE = 1
  MaxClient = 0
  MaxCrash = 0
  MaxHalf = 0
  MaxCfg = 0
  MaxRead = 0
  MaxSnap = 0
  SnapSize = 1
  AsyncKinds = {"rv"}
  MaxNet = 3
  W = {}
  MayTimeout = {a, b}
  MayLink = {}
  Gen = FALSE
SPECIFICATION Spec
INVARIANTS ElectionSafety NoViolation PrevoteForThisTerm TypeOK
CHECK_DEADLOCK FALSE
