CONSTANTS
  Node = {a, b, c}
  InitVoters = {a, b, c}
  Value = {x, y, z, u}
  Nil = Nil
  MaxTerm = 3
  MaxLog = 9
  MaxTimer = 7
  MaxAE = 14
  MaxClient = 4
  MaxCrash = 1
  MaxHalf = 1
  MaxCfg = 3
  MaxRead = 0
  MaxSnap = 3
  SnapSize = 2
  AsyncKinds = {"ae", "is"}
  MaxNet = 4
  W = {"Env:S5Free"}
  MayTimeout = {a, b, c}
  MayLink = {}
  Gen = TRUE
  OutDir = "OUTDIR"
SPECIFICATION GSpec
INVARIANTS Export ElectionSafety LogMatching NoViolation
CHECK_DEADLOCK FALSE
