\* reads, deeper (thorough tier, time-boxed)
CONSTANTS
  Node = {a, b, c}
  InitVoters = {a, b, c}
  Value = {x}
  Nil = Nil
  MaxTerm = 2
  MaxLog = 4
  MaxTimer = 2
  MaxAE = 2
  MaxClient = 1
  MaxCrash = 0
  MaxHalf = 0
  MaxCfg = 0
  MaxRead = 1
  MaxSnap = 0
  SnapSize = 1
  AsyncKinds = {"ae"}
  MaxNet = 3
  W = {}
  MayTimeout = {a, b, c}
  MayLink = {}
  Gen = FALSE
SPECIFICATION Spec
INVARIANTS ElectionSafety NoViolation NoStaleRead TypeOK
CHECK_DEADLOCK FALSE
