CONSTANTS
  K = 2
  T = 2
  Node = {a, b, c}
  InitVoters = {a, b, c}
  Value = {x}
  Nil = Nil
  MaxTerm = 9
  MaxLog = 9
  MaxTimer = 0
  MaxAE = 0
  MaxClient = 0
  MaxCrash = 0
  MaxHalf = 0
  MaxCfg = 0
  MaxRead = 0
  MaxSnap = 0
  SnapSize = 1
  AsyncKinds = {}
  MaxNet = 0
  W = {}
  MayTimeout = {a, b, c}
  MayLink = {}
  Gen = FALSE
INIT HInit
NEXT HNext
INVARIANT Emit
CHECK_DEADLOCK FALSE
