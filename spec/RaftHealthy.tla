----------------------------- MODULE RaftHealthy -----------------------------
(***************************************************************************)
(* C16 in the timed model: while a leader stays in prompt contact with a   *)
(* majority of voters, nothing the remaining nodes do makes it step down   *)
(* or raises the majority's term.                                          *)
(*                                                                         *)
(* RaftTimed.tla plus a "healthy period".  HLead and HMaj (a majority that *)
(* contains HLead) are constants; the period begins at a freely chosen     *)
(* moment at which HLead leads, HMaj is in its term and in contact with it,*)
(* and nobody else is ahead in term (a higher term acquired EARLIER        *)
(* deposes any leader on first contact and is not what C16 is about).      *)
(* During the period the environment is only restricted where the premise  *)
(* of C16 says so ("prompt contact"):                                      *)
(*   - HLead starts a replication round in every tick,                     *)
(*   - every message between HLead and a member of HMaj is answered within *)
(*     the tick it was sent in: time does not pass while one is in flight. *)
(* Every member of HMaj then hears from HLead less than E ago at all times,*)
(* and with L >= 2 HLead's lease - the only thing that makes a LEADER      *)
(* ignore vote requests - never lapses.  (A first version allowed these    *)
(* messages a delay of D each way; TLC then found the leader's lease       *)
(* lapsing between two renewals and the leader granting a vote: "prompt"   *)
(* has to mean faster than the lease, which is how the code's defaults -   *)
(* heartbeat 50 ms, lease 100 ms - are meant.)  The other nodes are free: their timers fire whenever *)
(* the code allows, every message from or to them may be delayed up to D   *)
(* or lost, they may campaign as often as the budget allows.  HLead may    *)
(* remove a server outside HMaj (before or during the period); a server    *)
(* whose removal HLead has adopted may be ahead in term when the period    *)
(* begins - its vote requests and late answers must not matter (seeded     *)
(* change C16c, weakening RemovedReplyHonoured).                           *)
(***************************************************************************)
EXTENDS RaftTimed

CONSTANTS HLead, HMaj, PreCampaign

VARIABLES hp,    \* the healthy period has begun
          t0,    \* the leader's term when it began
          hbt    \* HLead has started a round since the last tick
hvars == <<hp, t0, hbt>>

Between(m) == {m.from, m.to} \subseteq HMaj /\ HLead \in {m.from, m.to}

HInit == TInit /\ hp = FALSE /\ t0 = 0 /\ hbt = FALSE

BeginHealthy ==
  /\ ~hp
  /\ ns[HLead].role = "L" /\ lease[HLead] > 0      \* prompt contact is already established
  /\ \A n \in HMaj : ns[n].term = ns[HLead].term /\ (n # HLead => ns[n].role = "F" /\ age[n] < E)
  \* ... among the members of the configuration HLead works with: what a server that HLead has
  \* REMOVED (the removal committed and adopted before the period begins) carries in its term, its
  \* vote requests and its late answers is part of "the behaviour of the remaining nodes"
  /\ HMaj \subseteq ns[HLead].cfg.v /\ ~PendingCfg(ns[HLead])
  /\ \A n \in MembersOf(ns[HLead]) : ns[n].term <= ns[HLead].term
  /\ \A m \in net : (m.kind = "aeq" \/ (m.kind = "rvq" /\ m.from \in MembersOf(ns[HLead])) => m.term <= ns[HLead].term)
                    /\ (m.kind = "rvr" \/ (m.kind = "aer" /\ m.from \in MembersOf(ns[HLead]))
                          => m.reply.term <= ns[HLead].term /\ m.req.term <= ns[HLead].term)
  /\ hp' = TRUE /\ t0' = ns[HLead].term /\ hbt' = FALSE
  /\ UNCHANGED tvars

HTick ==
  /\ hp => hbt /\ \A m \in net : ~Between(m)
  /\ Tick
  /\ hbt' = FALSE /\ UNCHANGED <<hp, t0>>

HNext ==
  \/ BeginHealthy
  \/ HTick
  \* (search restriction, not an assumption of C16: before the period only HLead and the nodes in
  \* PreCampaign campaign; configurations with PreCampaign = Node \ HMaj explore the others' past)
  \/ \E n \in Node : TTimerFire(n) /\ (~hp => n \in {HLead} \cup PreCampaign) /\ UNCHANGED hvars
  \/ \E n \in Node : TStartRound(n) /\ hbt' = (hbt \/ n = HLead) /\ UNCHANGED <<hp, t0>>
  \/ \E m \in net : (TRVHandle(m) \/ TRVReply(m) \/ TAEHandle(m) \/ TAEReply(m)) /\ UNCHANGED hvars
  \* HLead removes a server outside HMaj (budget MaxCfg; none in MC_healthy, one in MC_healthy_member)
  \/ \E p \in Node \ HMaj : RemoveServer(HLead, p) /\ MageNext /\ UNCHANGED <<age, lease, tage>> /\ UNCHANGED hvars

\* C16
HealthyStable ==
  hp => /\ ns[HLead].role = "L" /\ ns[HLead].term = t0
        /\ \A n \in HMaj : ns[n].term = t0
=============================================================================
