\* C16 in the timed model: leader a in prompt contact with b; c is free (RaftHealthy.tla)
CONSTANTS
  Node = {a, b, c}
  InitVoters = {a, b, c}
  Value = {x}
  Nil = Nil
  E = 4
  L = 2
  D = 1
  TP = 4
  InitAge = 4
  HLead = a
  HMaj = {a, b}
  PreCampaign = {}
  MaxTerm = 3
  MaxLog = 4
  MaxTimer = 3
  MaxAE = 5
  MaxClient = 0
  MaxCrash = 0
  MaxHalf = 0
  MaxCfg = 0
  MaxRead = 0
  MaxSnap = 0
  SnapSize = 1
  AsyncKinds = {"rv", "ae"}
  MaxNet = 4
  W = {}
  MayTimeout = {a, c}
  MayLink = {}
  Gen = TRUE
INIT HInit
NEXT HNext
INVARIANTS HealthyStable TSafe
CHECK_DEADLOCK FALSE
