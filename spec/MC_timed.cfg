\* lease reads under the timing assumption L + D < E (C17): asynchronous grain with clocks
CONSTANTS
  Node = {a, b, c}
  InitVoters = {a, b, c}
  Value = {x}
  Nil = Nil
  E = 3
  L = 1
  D = 1
  TP = 3
  InitAge = 0
  MaxTerm = 2
  MaxLog = 4
  MaxTimer = 2
  MaxAE = 3
  MaxClient = 1
  MaxCrash = 0
  MaxHalf = 0
  MaxCfg = 0
  MaxRead = 0
  MaxSnap = 0
  SnapSize = 1
  AsyncKinds = {"rv", "ae"}
  MaxNet = 4
  W = {}
  MayTimeout = {a, b}
  MayLink = {}
  Gen = TRUE
INIT TInit
NEXT TNext
INVARIANTS LeaseFresh TSafe
CHECK_DEADLOCK FALSE
