------------------------------ MODULE LogProg ------------------------------
(***************************************************************************)
(* Operation programs over the Log interface (C12): TLC enumerates every   *)
(* well-formed program up to MaxOps operations - appends of 1..3 entries,  *)
(* truncation and compaction at every existing index, discard, close +     *)
(* reopen - over the abstract log of StoreAbs.  Each program is executed   *)
(* on the real file-backed log (to completion, then reopened, extended and *)
(* reopened again; a sample of them additionally under the SIGKILL sweep)  *)
(* and judged by StoreMon against the same abstraction.                    *)
(***************************************************************************)
EXTENDS StoreAbs, TLC

CONSTANTS MaxOps

VARIABLES lg, term, prog
vars == <<lg, term, prog>>

Init == lg = EmptyLog /\ term = 1 /\ prog = <<>>

Ent(i, t) == [i |-> i, t |-> t, k |-> 1, n |-> 3 + (i % 4) * 5]
Do(op, name) ==
  /\ Len(prog) < MaxOps
  /\ lg' = ApplyOp(lg, op)
  /\ prog' = Append(prog, name)
  /\ term' = IF op.op \in {"append", "discard"} THEN term + 1 ELSE term

Next ==
  \/ \E k \in 1..3 : Do([op |-> "append", ents |-> [j \in 1..k |-> Ent(LastIdx(lg) + j, term)]], "a" \o ToString(k))
  \/ \E i \in (lg.base + 1)..LastIdx(lg) : Do([op |-> "truncate", i |-> i], "t" \o ToString(i))
  \/ \E i \in (lg.base + 1)..LastIdx(lg) : Do([op |-> "compact", i |-> i], "c" \o ToString(i))
  \/ Do([op |-> "discard", i |-> LastIdx(lg) + 1, t |-> term], "d")
  \/ (Len(prog) > 0 /\ prog[Len(prog)] # "r" /\ Do([op |-> "reopen"], "r"))

Spec == Init /\ [][Next]_vars

RECURSIVE Join(_)
Join(q) == IF q = <<>> THEN "" ELSE q[1] \o (IF Len(q) > 1 THEN "," ELSE "") \o Join(Tail(q))
Emit == Len(prog) < MaxOps \/ PrintT("PROG|" \o Join(prog))
=============================================================================
