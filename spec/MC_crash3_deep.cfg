\* three static voters with crash and restart (loss of volatile state), exhaustive
CONSTANTS
  Node = {a, b, c}
  InitVoters = {a, b, c}
  Value = {x, y}
  Nil = Nil
  MaxTerm = 3
  MaxLog = 4
  MaxTimer = 4
  MaxAE = 2
  MaxClient = 1
  MaxCrash = 2
  MaxHalf = 1
  MaxCfg = 0
  MaxRead = 0
  MaxSnap = 0
  SnapSize = 1
  AsyncKinds = {}
  MaxNet = 0
  W = {}
  MayTimeout = {a, b, c}
  MayLink = {}
  Gen = FALSE
SPECIFICATION Spec
SYMMETRY Symm
INVARIANTS ElectionSafety LogMatching NoViolation CommittedDurable PrevoteForThisTerm VotesWithinAsked TypeOK
CHECK_DEADLOCK FALSE
