-------------------------------- MODULE Raft --------------------------------
(***************************************************************************)
(* Implementation-shaped specification of jmsadair/raft (see DESIGN.md     *)
(* sections 1 and 3).  It follows the code, not the paper: prevote and     *)
(* stickiness, the single-voter shortcut, candidates that re-increment     *)
(* their term without a new prevote, the AppendEntries handler with its    *)
(* four rejection cases and hints, the reply handlers without a stint      *)
(* check, the commit loop, crash = loss of volatile state.                 *)
(*                                                                         *)
(* Handler operators are pure: they map (node state, request) to (node     *)
(* state, reply).  They are composed at two grains:                        *)
(*   sync  -- Exchange = build request, handle, process reply in one step  *)
(*            (loss = the exchange does not happen, HalfExchange = the     *)
(*            reply is lost); used for exhaustive checking;                *)
(*   async -- requests and replies travel through `net'; used for the      *)
(*            kinds listed in AsyncKinds.                                  *)
(* Protective mechanisms can be switched off one by one through the set    *)
(* W of weakening names; every real configuration has W = {}.              *)
(***************************************************************************)
EXTENDS Integers, Sequences, FiniteSets, TLC

CONSTANTS
  Node,        \* node ids
  InitVoters,  \* voters of the bootstrap configuration (subset of Node)
  Value,       \* client payloads
  Nil,
  MaxTerm, MaxLog,          \* bounds on terms and log length
  MaxTimer, MaxAE, MaxClient, MaxCrash, MaxHalf,   \* budgets (bounded inside Next)
  MaxCfg,      \* membership requests that may be accepted (0 = static membership)
  MaxRead,     \* linearizable reads that may be submitted (asynchronous ae grain)
  MaxSnap,     \* snapshots that may be armed (0 = snapshots off)
  SnapSize,    \* 1: a snapshot fits one request; 2: it takes the code's two requests (everything, then empty + Done)
  AsyncKinds,  \* subset of {"rv", "ae"} handled through `net'
  MaxNet,      \* messages in flight (async kinds)
  W,           \* weakenings in force (set of strings), {} for the real protocol
  MayTimeout,  \* role script: the nodes whose election timer may fire (Node = no restriction)
  MayLink,     \* role script: the pairs {n, p} of nodes that may exchange messages ({} = no restriction)
  Gen          \* TRUE in behaviour-generation configurations: the free timing choices (sticky,
               \* stay) are fixed to the value the replay driver can enforce (contact lapsed)

ASSUME InitVoters \subseteq Node

VARIABLES
  ns,      \* node -> record of node-local state (see InitNode)
  net,     \* set of messages in flight (async kinds only)
  budget,  \* remaining budgets
  elected, \* history: set of <<term, node>> that became leader
  comm,    \* history: index -> entry, first time any node's commit index covered it
  voted,   \* history: set of <<node, term, candidate>> real votes ever cast (self-votes included)
  acked,   \* history: largest log index whose replicated operation was acknowledged to a client
  viol     \* history: names of properties observed violated at an action

vars == <<ns, net, budget, elected, comm, voted, acked, viol>>

-----------------------------------------------------------------------------
Max(a, b) == IF a > b THEN a ELSE b
Min(a, b) == IF a < b THEN a ELSE b

Entry(t, k, v) == [t |-> t, k |-> k, v |-> v]
\* a configuration: index of its entry, voters, non-voting members (idx 0 = no configuration)
Cfg(i, v, n) == [idx |-> i, v |-> v, n |-> n]
NoCfg == Cfg(0, {}, {})
BootEntry == Entry(1, "cfg", [v |-> InitVoters, n |-> {}])

\* log = [base, bterm, ents]: ents[j] is the entry with index base + j
LastIdx(lg)  == lg.base + Len(lg.ents)
LastTerm(lg) == IF Len(lg.ents) = 0 THEN lg.bterm ELSE lg.ents[Len(lg.ents)].t
HasIdx(lg, i) == i > lg.base /\ i <= LastIdx(lg)
At(lg, i)    == lg.ents[i - lg.base]
TermAt(lg, i) == IF i = lg.base THEN lg.bterm ELSE At(lg, i).t
Prefix(lg, i) == [lg EXCEPT !.ents = SubSeq(lg.ents, 1, i - lg.base)]     \* keep indices <= i
Suffix(lg, i) == SubSeq(lg.ents, i - lg.base, Len(lg.ents))               \* entries with index >= i
AppendTo(lg, es) == [lg EXCEPT !.ents = lg.ents \o es]

Compact(lg, i) == [base |-> i, bterm |-> TermAt(lg, i), ents |-> Suffix(lg, i + 1)]

NoFile == [idx |-> 0, term |-> 0]

\* takeSnapshot, run by the snapshot loop once the apply loop has applied everything committed
\* (the state machine asked for it: `arm'): label = lastApplied, log compacted there.
\* In the code these are two critical sections: the new file is PUBLISHED (Close) without the
\* node's lock; lastIncludedIndex, the log and the open transfer files change only when the lock
\* has been taken again.  With "Env:SnapWindow" in W the two are separate steps (spub = published,
\* not adopted yet); otherwise one.
SnapWindow == "Env:SnapWindow" \in W
TakeSnapshot(s) ==
  IF s.arm /\ ~s.spub /\ s.commit > s.li.idx /\ HasIdx(s.log, s.commit) /\ s.ccfg.idx # 0 /\ s.ccfg.idx <= s.commit
    THEN LET lbl == [idx |-> s.commit, term |-> TermAt(s.log, s.commit)] IN
         IF SnapWindow THEN [s EXCEPT !.arm = FALSE, !.snap = lbl, !.scfg = s.ccfg, !.spub = TRUE]
         ELSE [s EXCEPT !.arm = FALSE, !.snap = lbl, !.li = lbl, !.log = Compact(s.log, s.commit), !.scfg = s.ccfg,
                        !.soff = [p \in Node |-> 0], !.sfile = [p \in Node |-> NoFile]]          \* resetSnapshotFiles
    ELSE s
\* the second critical section of takeSnapshot
AdoptNode(s) ==
  IF ~s.spub THEN s
  ELSE IF s.snap.idx > s.li.idx /\ HasIdx(s.log, s.snap.idx)
    THEN [s EXCEPT !.spub = FALSE, !.li = s.snap, !.log = Compact(s.log, s.snap.idx), !.soff = [p \in Node |-> 0], !.sfile = [p \in Node |-> NoFile]]
    ELSE [s EXCEPT !.spub = FALSE]

\* a node that kept its log when it installed a snapshot compacts it once it has applied the boundary
\* (the InstallSnapshot handler itself waits and compacts: `park'; a crash ends the wait, and a log
\* that reaches below the snapshot then stays so until the node's next own snapshot)
CompactParked(s) ==
  IF ~s.park THEN s
  ELSE IF s.li.idx <= s.log.base THEN [s EXCEPT !.park = FALSE]      \* compacted meanwhile by the node's own snapshot
  ELSE IF s.commit >= s.li.idx /\ HasIdx(s.log, s.li.idx) THEN [s EXCEPT !.log = Compact(s.log, s.li.idx), !.park = FALSE]
  ELSE s


\* static membership in this module's core; Membership.tla refines these two
\* the configuration in force on a node (r.configuration)
VotersOf(s)  == s.cfg.v
MembersOf(s) == s.cfg.v \cup s.cfg.n
IsVoter(s, n) == n \in VotersOf(s)
Quorum(s, count) ==
  IF "QuorumGeq" \in W THEN count * 2 >= Cardinality(VotersOf(s))     \* weakening: >= instead of >
  ELSE count > Cardinality(VotersOf(s)) \div 2
SingleServer(s, n) == MembersOf(s) = {n} /\ IsVoter(s, n)

InitNode ==
  [ me |-> Nil,                                       \* the node's own id (set in Init)
    term |-> 0, vote |-> Nil, role |-> "F",
    log |-> [base |-> 0, bterm |-> 0, ents |-> <<BootEntry>>],
    cfg |-> Cfg(1, InitVoters, {}),                   \* r.configuration (Bootstrap)
    ccfg |-> NoCfg,                                   \* r.committedConfiguration (nil until a configuration is applied)
    scfg |-> NoCfg,                                   \* configuration stored with the newest snapshot
    cfut |-> 0,                                       \* index of the configuration entry an outstanding membership future waits for
    commit |-> 0,
    next |-> [p \in Node |-> 1], match |-> [p \in Node |-> 0],
    votes |-> 0, asked |-> {}, pre |-> FALSE,         \* current vote round: counter, peers asked, prevote?
    dterm |-> 0, dvote |-> Nil,                       \* term / vote as last persisted (what a crash leaves)
    pend |-> <<>>,                                    \* index -> submitted value: futures of replicated operations
    li |-> [idx |-> 0, term |-> 0],                   \* lastIncludedIndex / lastIncludedTerm: the *node's* boundary (the
                                                      \* log's own boundary is log.base; the code updates them separately)
    snap |-> [idx |-> 0, term |-> 0],                 \* newest published snapshot (durable); its content is the operations up to idx
    arm |-> FALSE,                                    \* the state machine will ask for a snapshot after the next applied entry
    rs |-> [idx |-> 0, term |-> 0, off |-> 0],        \* partial incoming snapshot file (idx = 0: none)
    soff |-> [p \in Node |-> 0],                     \* leader: read offset in the snapshot file being sent to p
    sfile |-> [p \in Node |-> NoFile],               \* leader: label of the snapshot file it has open for p (stays open until the transfer ends)
    \* rounds (asynchronous grain): every sendRequestVoteToPeers / sendAppendEntriesToPeers call
    \* allocates one counter shared by the goroutines of that round
    vr |-> 0,                                         \* vote rounds started so far
    hbr |-> 0,                                        \* heartbeatRound: replication rounds started so far
    cnt |-> <<>>,                                     \* round key <<kind, k>> -> responses counted (1 = the node itself)
    pwon |-> 0,                                       \* (history) the term the prevote round that permitted the node's candidacy asked about
    apl |-> 0,                                        \* (Env:SnapWindow) index up to which the effects of applying have been modelled
    park |-> FALSE,                                   \* an InstallSnapshot handler that kept the log waits to compact it
    spub |-> FALSE,                                   \* takeSnapshot has published its file but not taken the lock again
    xops |-> 0,                                       \* (history) ... of which client operations
    xtra |-> 0,                                       \* (history) operations the state machine holds beyond the label it was restored under
    rsp |-> <<>>,                                     \* (history) replication round k -> voters whose responses were counted
    reads |-> {},                                     \* pending linearizable reads [id, ridx, vround, ver, must]
    svq |-> TRUE,                                     \* shouldVerifyQuorum
    rvr |-> 0,                                        \* round started by the last read that started one
    fep |-> [q \in Node |-> 0] ]                       \* generation of the follower record kept for q (AddServer replaces the record)

-----------------------------------------------------------------------------
(* Role changes, as in the code *)

\* Persist(s, site): persistTermAndVote at one of the code's call sites
Persist(s, site) ==
  IF ("NoPersist@" \o site) \in W THEN s ELSE [s EXCEPT !.dterm = s.term, !.dvote = s.vote]

\* becomeFollower, called from `site' (rv, ae_hi, ae_eq, aer, rvr): the vote is forgotten only
\* when the term changes (fix 19aa842; ClearVoteSameTerm restores the old behaviour), term and
\* vote are persisted, pending futures are failed (ErrNotLeader).  The per-site weakenings
\* model a call site that does the step-down by hand and forgets one of these duties.
BecomeFollower(s, t, site) ==
  LET s1 == [s EXCEPT !.role = "F", !.term = t,
                      !.vote = IF ("KeepVote@" \o site) \in W THEN s.vote
                               ELSE IF t # s.term \/ "ClearVoteSameTerm" \in W THEN Nil ELSE s.vote,
                      !.pend = IF ("KeepPend@" \o site) \in W \/ "PendingNotCleared" \in W THEN s.pend ELSE <<>>,
                      \* resetSnapshotFiles: a partial incoming snapshot is discarded, open readers are closed
                      !.rs = [idx |-> 0, term |-> 0, off |-> 0], !.soff = [p \in Node |-> 0], !.sfile = [p \in Node |-> NoFile],
                      \* new operation manager: pending reads are failed (ErrNotLeader)
                      !.reads = {}, !.svq = TRUE, !.cfut = 0] IN
  Persist(s1, site)

BecomeLeader(s, n) ==
  [s EXCEPT !.role = "L", !.reads = {}, !.svq = TRUE,
            !.rs = [idx |-> 0, term |-> 0, off |-> 0], !.soff = [p \in Node |-> 0], !.sfile = [p \in Node |-> NoFile],
            \* (the followers map only holds the members of the configuration in force)
            !.next = [p \in Node |-> IF p \in MembersOf(s) THEN LastIdx(s.log) + 1 ELSE s.next[p]],
            !.match = IF "MatchNotReset" \in W THEN s.match ELSE [p \in Node |-> IF p \in MembersOf(s) THEN 0 ELSE s.match[p]],
            !.log = AppendTo(s.log, <<Entry(s.term, "noop", Nil)>>)]

\* becomeCandidate + start of a real vote round
BecomeCandidate(s, n) ==
  Persist([s EXCEPT !.role = "C", !.term = s.term + 1, !.vote = n, !.votes = 1, !.asked = {}, !.pre = FALSE], "cand")

-----------------------------------------------------------------------------
(* RequestVote *)

RVRequest(s, n) ==
  [kind |-> "rv", from |-> n, term |-> IF s.pre THEN s.term + 1 ELSE s.term,
   last |-> LastIdx(s.log), lastt |-> LastTerm(s.log), pre |-> s.pre]

LogOk(s, m) ==
  IF "VoteNoLogCheck" \in W THEN TRUE
  ELSE IF "VoteLogLenOnly" \in W THEN m.last >= LastIdx(s.log)
  ELSE IF "VoteLogTermOnly" \in W THEN m.lastt >= LastTerm(s.log)
  ELSE ~(m.lastt < LastTerm(s.log) \/ (m.lastt = LastTerm(s.log) /\ LastIdx(s.log) > m.last))

\* sticky: the voter ignores the request (valid lease or recent leader contact); a free
\* choice of the environment, see DESIGN.md 3.5
\* (a leader that is the only member renews its lease at every heartbeat tick, without anybody's
\* answer: its lease never lapses and it ignores every vote request - e.g. of the server it has
\* just removed; found as conformance drift of a replayed membership behaviour)
AlwaysSticky(s) == s.role = "L" /\ MembersOf(s) = {s.me}
HandleRV(s, m, sticky0) ==
  LET sticky == sticky0 \/ AlwaysSticky(s)
      reject(st) == [s |-> st, reply |-> [term |-> st.term, ok |-> FALSE]] IN
  \* (weakening StickyPrevoteOnly: the recent-contact guard applied to prevotes only)
  IF sticky /\ "NoStickiness" \notin W /\ ("StickyPrevoteOnly" \notin W \/ m.pre) THEN reject(s)
  ELSE IF m.term < s.term THEN reject(s)
  ELSE
    LET s1 == IF ~m.pre /\ m.term > s.term THEN BecomeFollower(s, m.term, "rv")
              ELSE IF m.pre /\ m.term > s.term /\ "PrevoteBumpsTerm" \in W THEN BecomeFollower(s, m.term, "rv")
              ELSE s IN
    \* (weakening PrevoteRefusedIfVoted: also a PREVOTE that asks about the voter's own term is
    \* refused when the voter has voted for somebody else in it - the asker never learns the term)
    IF (~m.pre \/ ("PrevoteRefusedIfVoted" \in W /\ m.term = s1.term)) /\ s1.vote # Nil /\ s1.vote # m.from /\ "VoteNoVotedFor" \notin W THEN reject(s1)
    ELSE IF ~LogOk(s1, m) THEN reject(s1)
    ELSE [s |-> IF m.pre THEN s1 ELSE Persist([s1 EXCEPT !.vote = m.from], "grant"),
          reply |-> [term |-> s1.term, ok |-> TRUE]]

\* the candidate's continuation after the RPC returns.  stay: after a prevote quorum the
\* election loop finds the contact fresh and does not start the real election yet.
\* the term a request was sent in: a prevote carries the term it asks about, one more (fix 94f63bc;
\* before it the carried term was compared: weakening PrevoteStaleByCarriedTerm)
SentTerm(m) == IF m.pre /\ "PrevoteStaleByCarriedTerm" \notin W THEN m.term - 1 ELSE m.term

OnRVReply(s, n, m, r, stay) ==
  IF s.term > SentTerm(m) /\ "NoStaleVoteReplyCheck" \notin W THEN s
  ELSE
    LET s1 == IF r.ok THEN [s EXCEPT !.votes = s.votes + 1] ELSE s IN
    \* (weakening PrevoteReplyTermIgnored: a pre-candidate does not adopt the term of a rejection)
    IF r.term > m.term /\ ~("PrevoteReplyTermIgnored" \in W /\ m.pre) THEN BecomeFollower(s1, r.term, "rvr")
    ELSE
      LET s2 == IF Quorum(s1, s1.votes) /\ s1.role = "P"
                  THEN (IF stay THEN [s1 EXCEPT !.role = "C", !.pwon = m.term] ELSE [BecomeCandidate(s1, n) EXCEPT !.pwon = m.term])
                  ELSE s1 IN
      IF ~m.pre /\ Quorum(s2, s2.votes) /\ s2.role = "C" /\ s2.pre = FALSE /\ s2.term = m.term
        THEN BecomeLeader(s2, n) ELSE s2

-----------------------------------------------------------------------------
(* AppendEntries *)

AERequest(s, n, p) ==
  LET nx == s.next[p]
      prev == Max(nx - 1, s.li.idx)
      prevt == IF prev > s.li.idx /\ prev <= LastIdx(s.log) THEN TermAt(s.log, prev) ELSE s.li.term
      es == IF nx > LastIdx(s.log) THEN <<>> ELSE Suffix(s.log, Max(nx, s.li.idx + 1)) IN
  \* fe: the follower record the sending goroutine holds (its continuation updates THAT record)
  [kind |-> "ae", from |-> n, term |-> s.term, prev |-> prev, prevt |-> prevt, ents |-> es, commit |-> s.commit, fe |-> s.fep[p]]

\* first index of the run of entries carrying the term of the entry at i (not below base + 1)
FirstOfTerm(lg, i, bound) ==
  LET t == At(lg, i).t
      S == {j \in (Max(bound, lg.base) + 1)..i : \A k \in j..i : At(lg, k).t = t} IN
  CHOOSE j \in S : \A k \in S : j <= k

\* the request's entries against the follower's log: position of the first entry that is
\* missing or conflicting (0 = everything is already there)
FirstNew(lg, m) ==
  LET n == Len(m.ents)
      S == {j \in 1..n : ~HasIdx(lg, m.prev + j) \/ At(lg, m.prev + j).t # m.ents[j].t} IN
  IF S = {} THEN 0 ELSE CHOOSE j \in S : \A k \in S : j <= k

HandleAE(s, m) ==
  LET rej(st, hint) == [s |-> st, reply |-> [term |-> st.term, ok |-> FALSE, hint |-> hint]] IN
  IF m.term < s.term THEN rej(s, 0)
  ELSE
    LET s1 == IF m.term > s.term THEN BecomeFollower(s, m.term, "ae_hi")
              ELSE IF s.role \in {"C", "P"} THEN BecomeFollower(s, m.term, "ae_eq")
              ELSE s
        lg == s1.log IN
    \* the boundary the handler checks against is the node's lastIncludedIndex/Term
    IF s1.li.idx > m.prev /\ "NoPrevCheck" \notin W THEN rej(s1, s1.li.idx + 1)
    ELSE IF LastIdx(lg) < m.prev /\ "NoPrevCheck" \notin W THEN rej(s1, LastIdx(lg) + 1)
    ELSE IF s1.li.idx = m.prev /\ s1.li.term # m.prevt /\ "NoPrevCheck" \notin W THEN rej(s1, s1.li.idx)
    ELSE IF s1.li.idx < m.prev /\ HasIdx(lg, m.prev) /\ At(lg, m.prev).t # m.prevt /\ "NoPrevCheck" \notin W
           THEN rej(s1, FirstOfTerm(lg, m.prev, s1.li.idx))
    ELSE
      LET j == FirstNew(lg, m)
          lg2 == IF "TruncateAlways" \in W /\ LastIdx(lg) > m.prev + Len(m.ents)
                   THEN Prefix(lg, Max(lg.base, m.prev + Len(m.ents)))         \* weakening: cut whenever shorter
                 ELSE lg
          lg3 == IF j = 0 THEN lg2
                 ELSE AppendTo(Prefix(lg2, Min(LastIdx(lg2), m.prev + j - 1)), SubSeq(m.ents, j, Len(m.ents)))
          c == IF m.commit > s1.commit
                 THEN (IF "FollowerCommitUnchecked" \in W THEN m.commit ELSE Min(m.commit, LastIdx(lg3)))
                 ELSE s1.commit
          \* a truncation at or below the configuration in force falls back to the committed one
          truncated == j # 0 /\ HasIdx(lg2, m.prev + j)
          \* (weakening FallbackFirstOnly: only when the first removed entry is itself a configuration)
          cfg2 == IF truncated /\ m.prev + j <= s1.cfg.idx /\ "NoConfigFallback" \notin W
                     /\ ("FallbackFirstOnly" \notin W \/ At(lg2, m.prev + j).k = "cfg") THEN s1.ccfg ELSE s1.cfg IN
      [s |-> [s1 EXCEPT !.log = lg3, !.commit = c, !.cfg = cfg2],
       reply |-> [term |-> s1.term, ok |-> TRUE, hint |-> 0]]

\* commitLoop body: the largest index of the current term replicated on a quorum of voters
CommitIndexOf(s, n) ==
  LET ok(i) == /\ (At(s.log, i).t = s.term \/ "CommitAnyTerm" \in W)
               \* the leader counts itself only if it is a voter (fix S20: a leader demoted to a
               \* non-voter used to count itself; LeaderCountsItself restores that)
               /\ Quorum(s, (IF IsVoter(s, n) \/ "LeaderCountsItself" \in W THEN 1 ELSE 0)
                            + Cardinality({p \in (IF "CommitCountsNonVoters" \in W THEN MembersOf(s) ELSE VotersOf(s)) \ {n} : s.match[p] >= i}))
      S == {i \in (s.commit + 1)..LastIdx(s.log) : HasIdx(s.log, i) /\ ok(i)} IN
  IF S = {} THEN s.commit ELSE CHOOSE i \in S : \A k \in S : k <= i

\* the leader's continuation after the RPC returns.  Since fix 8b6b307 a reply to a request of
\* an earlier term is dropped; the weakening restores the code's former behaviour (no check
\* that the reply belongs to the current leadership stint)
OnAEReply(s, n, p, m, r) ==
  \* (weakening RemovedReplyHonoured, after seeded change C16c: the term of a reply is looked at
  \* before the membership of its sender)
  IF "RemovedReplyHonoured" \in W /\ p \notin MembersOf(s) /\ s.role = "L" /\ r.term > s.term
    THEN BecomeFollower(s, r.term, "aer")
  ELSE IF p \notin MembersOf(s) \/ s.role # "L" THEN s
  ELSE IF m.term # s.term /\ "NoStaleAEReplyCheck" \notin W THEN s
  ELSE IF r.term > s.term THEN BecomeFollower(s, r.term, "aer")
  \* AddServer has replaced p's follower record since the request was sent: the continuation
  \* updates the orphaned record (the answer still counts for its round, see AEReply)
  ELSE IF m.fe # s.fep[p] THEN s
  ELSE IF ~r.ok THEN [s EXCEPT !.next[p] = r.hint]
  ELSE
    LET top == m.prev + Len(m.ents) IN
    IF top > s.match[p]
      THEN LET s1 == [s EXCEPT !.next[p] = Max(s.next[p], top + 1), !.match[p] = top] IN
           [s1 EXCEPT !.commit = CommitIndexOf(s1, n)]
      ELSE s


-----------------------------------------------------------------------------
(* InstallSnapshot.  The sender reads the rest of the file into one request (Done iff fewer *)
(* bytes than a chunk were read) and re-synchronises its offset from BytesWritten; sizes are *)
(* in chunk units: SnapSize = 1 -> one request carries everything and is Done, SnapSize = 2  *)
(* -> the first carries everything and is not Done, the second is empty and Done.            *)

ISRequest(s, n, p) ==
  LET off == s.soff[p]
      nbytes == SnapSize - off
      \* the file that is open for p, else the newest published one (opened now)
      file == IF s.sfile[p].idx # 0 THEN s.sfile[p] ELSE s.snap
      \* the label comes from the file's metadata (weakening ISLabelFromNode: from the node's
      \* lastIncludedIndex / lastIncludedTerm); cidx = what the file's bytes really contain
      lbl == IF "ISLabelFromNode" \in W THEN s.li ELSE file IN
  \* xops: client operations the bytes contain beyond the label (what an execution can show)
  [kind |-> "is", from |-> n, term |-> s.term, fe |-> s.fep[p], idx |-> lbl.idx, sterm |-> lbl.term, cidx |-> file.idx,
   xops |-> Cardinality({i \in (lbl.idx + 1)..file.idx : HasIdx(s.log, i) /\ At(s.log, i).k = "op"}),
   off |-> off, n |-> nbytes, done |-> nbytes < 2 \/ SnapSize = 1, cfg |-> s.scfg]

\* a replication step towards all followers (heartbeat, submission) opens the newest snapshot for
\* every follower that needs one and has no transfer open; the file stays open until the transfer
\* ends or the files are reset (modelled with Env:SnapWindow only)
Touch(s) ==
  IF ~("Env:SnapWindow" \in W) \/ s.role # "L" \/ s.li.idx = 0 THEN s
  ELSE [s EXCEPT !.sfile = [q \in Node |-> IF q \in MembersOf(s) /\ q # s.me /\ s.next[q] <= s.li.idx /\ s.sfile[q].idx = 0
                                               THEN s.snap ELSE s.sfile[q]]]

\* Where an action of the synchronous vote grain stands for a stretch of time (an election timer
\* running out, contacts lapsing before a vote exchange), a leader's heartbeat rounds go on in the
\* code.  Their requests are lost as far as this model is concerned, but with InstallSnapshot at
\* request grain they leave a trace on the SENDER: the snapshot file is open for every follower
\* that needs one and has been read to its end.
IdleNode(s) ==
  IF "is" \in AsyncKinds /\ s.role = "L" /\ s.li.idx > 0
    THEN LET lag == {q \in MembersOf(s) \ {s.me} : s.next[q] <= s.li.idx} IN
         [s EXCEPT !.sfile = [q \in Node |-> IF q \in lag /\ s.sfile[q].idx = 0 THEN s.snap ELSE s.sfile[q]],
                   !.soff = [q \in Node |-> IF q \in lag THEN SnapSize ELSE s.soff[q]]]
    ELSE s
Elapse(f) == [q \in Node |-> IdleNode(f[q])]

HandleIS(s, m) ==
  LET rep(st, w) == [s |-> st, reply |-> [term |-> st.term, written |-> w]] IN
  IF s.term > m.term THEN rep(s, 0)
  ELSE
    LET s1 == IF s.term < m.term THEN BecomeFollower(s, m.term, "is_hi")
              ELSE IF s.role \in {"C", "P"} THEN BecomeFollower(s, m.term, "is_eq")
              ELSE s IN
    \* nothing new: acknowledged since fix ce19024 (before: zero bytes written)
    IF s1.li.idx >= m.idx \/ s1.commit >= m.idx
      THEN rep(s1, IF "NothingNewZero" \in W THEN 0 ELSE m.off + m.n)
    ELSE
      \* an incomplete file of an older snapshot is discarded; a file is created if there is none
      LET f == IF s1.rs.idx = 0 \/ s1.rs.idx < m.idx THEN [idx |-> m.idx, term |-> m.sterm, off |-> 0] ELSE s1.rs IN
      IF m.off # f.off THEN rep([s1 EXCEPT !.rs = f], f.off)
      ELSE
        LET f2 == [f EXCEPT !.off = f.off + m.n] IN
        IF ~m.done THEN rep([s1 EXCEPT !.rs = f2], f2.off)
        ELSE
          \* publish (under the label the file was created with); the node's boundary comes from the request
          LET pub == [idx |-> f2.idx, term |-> f2.term]
              s2 == [s1 EXCEPT !.rs = [idx |-> 0, term |-> 0, off |-> 0], !.snap = pub, !.scfg = m.cfg,
                               !.li = [idx |-> m.idx, term |-> m.sterm]]
              keep == HasIdx(s2.log, m.idx) /\ (TermAt(s2.log, m.idx) = m.sterm \/ "InstallKeepsLogAnyTerm" \in W) IN
          IF keep
            THEN rep(CompactParked([s2 EXCEPT !.park = TRUE]), f2.off)       \* log kept; compacted once the boundary is applied
            ELSE \* restore the state machine from the newest snapshot, discard the whole log
                 \* and applyConfiguration(request.Configuration)
                 LET s3 == [s2 EXCEPT !.commit = m.idx, !.log = [base |-> m.idx, bterm |-> m.sterm, ents |-> <<>>],
                                      !.xtra = m.cidx - m.idx, !.xops = m.xops]
                     newer == ~(s3.ccfg.idx # 0 /\ m.cfg.idx <= s3.ccfg.idx) IN
                 rep(IF newer THEN [s3 EXCEPT !.cfg = m.cfg, !.ccfg = m.cfg] ELSE s3, f2.off)

OnISReply(s, n, p, m, r) ==
  IF r.term > s.term THEN BecomeFollower(s, r.term, "isr")
  ELSE IF r.written # m.off THEN [s EXCEPT !.soff[p] = r.written]
  ELSE IF ~m.done THEN s
  ELSE [s EXCEPT !.soff[p] = 0, !.sfile[p] = NoFile, !.match[p] = m.idx, !.next[p] = m.idx + 1]

-----------------------------------------------------------------------------
(* History and action-level property observations *)

NewlyCommitted(old, new) == {i \in (old.commit + 1)..new.commit : HasIdx(new.log, i)}

\* comm: index -> [e: the entry first reported committed there, ct: the term of the node that
\* reported it first (the term the commitment happened in, or a later one)]
CommNext(c, old, new) ==
  LET I == {i \in NewlyCommitted(old, new) : i \notin DOMAIN c} IN
  [i \in DOMAIN c \cup I |-> IF i \in DOMAIN c THEN c[i] ELSE [e |-> At(new.log, i), ct |-> new.term]]

\* a node's commit index covers an entry that differs from what was committed first
CommitViolation(c, old, new) ==
  \E i \in NewlyCommitted(old, new) : i \in DOMAIN c /\ c[i].e # At(new.log, i)

\* the same, where one of the two entries is a client operation (the only kind the state machine
\* is handed, hence the only kind an execution of the code shows as a C01 violation)
CommitViolationOp(c, old, new) ==
  \E i \in NewlyCommitted(old, new) : i \in DOMAIN c /\ c[i].e # At(new.log, i) /\ (c[i].e.k = "op" \/ At(new.log, i).k = "op")

\* a node that becomes leader of term t lacks an entry committed in an earlier term.  (A node can
\* still win an OLD term after a newer leader has committed - with five voters: its last vote was
\* cast before the voter moved on - and need not hold that entry; "later leaders" are leaders of
\* later terms, as in Raft's Leader Completeness.)
CompletenessViolation(c, s, t) ==
  \E i \in DOMAIN c : c[i].ct < t /\ i > s.log.base /\ (~HasIdx(s.log, i) \/ At(s.log, i) # c[i].e)

CommittedThisTerm(s) ==
  IF HasIdx(s.log, s.commit) THEN At(s.log, s.commit).t = s.term ELSE s.li.term = s.term

\* the read-only loop serves every verified read whose read index is applied (eagerly: it is
\* woken whenever a round reaches its quorum and whenever the apply loop has applied something)
Servable(s) ==
  IF s.role = "L" /\ CommittedThisTerm(s) THEN {r \in s.reads : r.ver /\ r.ridx <= s.commit} ELSE {}

\* futures whose index the node has applied are resolved and forgotten (an index applied as a
\* no-op or configuration entry leaves its future dangling in the code as well)
\* applyConfiguration for the entries applied in this step, in order.  Every node switches to a
\* configuration when it applies it (which can move a leader back to an older configuration
\* than the one it appended); a leader that is no longer a member steps down (not persisted).
RECURSIVE ApplyCfgs(_, _, _)
ApplyCfgs(s, i, hi) ==
  IF i > hi THEN s
  ELSE IF ~HasIdx(s.log, i) \/ At(s.log, i).k # "cfg" THEN ApplyCfgs(s, i + 1, hi)
  ELSE IF s.ccfg.idx # 0 /\ i <= s.ccfg.idx THEN ApplyCfgs([s EXCEPT !.cfut = IF s.cfut = i THEN 0 ELSE s.cfut], i + 1, hi)
  ELSE LET e == At(s.log, i)
           nc == Cfg(i, e.v.v, e.v.n)
           out == s.role = "L" /\ s.me \notin (nc.v \cup nc.n)
           \* nextConfiguration creates the follower state of added members: replication starts at
           \* index 1 (before fix S19 the zero value, which a leader takes for "covered by a
           \* snapshot" and then sends nothing at all)
           added == (nc.v \cup nc.n) \ MembersOf(s)
           s1 == [s EXCEPT !.cfg = nc, !.ccfg = nc, !.cfut = IF s.cfut = i THEN 0 ELSE s.cfut,
                           !.next = [q \in Node |-> IF q \in added THEN (IF "NewFollowerNextZero" \in W THEN 0 ELSE 1) ELSE s.next[q]],
                           !.match = [q \in Node |-> IF q \in added THEN 0 ELSE s.match[q]]]
           s2 == IF out THEN [s1 EXCEPT !.role = "F", !.pend = <<>>, !.reads = {}, !.svq = TRUE] ELSE s1 IN
       ApplyCfgs(s2, i + 1, hi)

\* (with Env:SnapWindow the apply loop is modelled as paused between publication and adoption of the
\* node's own snapshot - the code's `snapshotting' flag -: what applying does is deferred until the
\* adoption step, `apl' = index up to which it has been done)
FinFrom(lo, new) ==
  LET s0 == IF new.commit > lo THEN ApplyCfgs(new, lo + 1, new.commit) ELSE new
      s1 == [s0 EXCEPT !.pend = [i \in {j \in DOMAIN s0.pend : ~(j > lo /\ j <= new.commit /\ HasIdx(new.log, j) /\ At(new.log, j).k = "op")}
                                   |-> s0.pend[i]]]
      s2 == IF new.commit > lo THEN CompactParked(s1) ELSE s1
      s3 == IF s2.commit > lo THEN TakeSnapshot(s2) ELSE s2 IN
  [s3 EXCEPT !.reads = s3.reads \ Servable(s3)]
Fin(old, new) ==
  IF ~SnapWindow THEN FinFrom(old.commit, new)
  ELSE IF old.spub /\ new.spub THEN new
  ELSE [FinFrom(old.apl, new) EXCEPT !.apl = new.commit]

\* bookkeeping shared by all actions that change node n from `old' to `new'
Observe(n, old, new, el, c, vd, ak, v) ==
  LET becameLeader == old.role # "L" /\ new.role = "L"
      el2 == IF becameLeader THEN el \cup {<<new.term, n>>} ELSE el
      cast == new.vote # Nil /\ new.role # "D" /\ (new.vote # old.vote \/ new.term # old.term)
      vd2 == IF cast THEN vd \cup {<<n, new.term, new.vote>>} ELSE vd
      ackNow == {i \in NewlyCommitted(old, new) : i \in DOMAIN new.pend /\ At(new.log, i).k = "op"}
      ak2 == IF ackNow = {} THEN ak ELSE Max(ak, CHOOSE i \in ackNow : \A j \in ackNow : j <= i)
      v2 == v \cup (IF CommitViolation(c, old, new) THEN {"StateMachineSafety"} ELSE {})
              \cup (IF CommitViolationOp(c, old, new) THEN {"StateMachineSafetyOp"} ELSE {})
              \cup (IF becameLeader /\ CompletenessViolation(c, old, new.term) THEN {"LeaderCompleteness"} ELSE {})
              \cup (IF new.term < old.term THEN {"TermMonotone"} ELSE {})
              \cup (IF new.commit < old.commit /\ new.role # "D" /\ old.role # "D" THEN {"CommitMonotone"} ELSE {})
              \cup (IF old.role = "L" /\ new.role = "L" /\ old.term = new.term
                       /\ ~(LastIdx(new.log) >= LastIdx(old.log) /\ Prefix(new.log, LastIdx(old.log)) = old.log)
                     THEN {"LeaderAppendOnly"} ELSE {})
              \cup (IF cast /\ \E w \in vd : w[1] = n /\ w[2] = new.term /\ w[3] # new.vote
                     THEN {"OneVotePerTerm"} ELSE {})
              \* a future resolves (the node applies the index) with an entry other than the one submitted
              \* (`new' is the state after the handler, before Fin removes the resolved futures: a
              \* step-down in the same step has already failed them)
              \cup (IF \E i \in NewlyCommitted(old, new) : i \in DOMAIN new.pend /\ At(new.log, i).k = "op"
                                                            /\ At(new.log, i).v # new.pend[i]
                     THEN {"FutureTruth"} ELSE {})
              \* C05: a linearizable read is served from a state that lacks an operation acknowledged
              \* before the read was invoked
              \cup (IF \E r \in Servable(new) : new.commit < r.must THEN {"StaleRead"} ELSE {})
              \* C16 (mechanism): a pre-candidate turns candidate on more grants than voters it asked in this round
              \cup (IF "rv" \notin AsyncKinds /\ old.role = "P" /\ new.role = "C" /\ ~new.pre /\ old.votes > Cardinality(old.asked) + 1
                    THEN {"CandidateWithoutPrevoteMajority"} ELSE {})
              \* a read is served although no round from its own on was answered by voters that
              \* form a majority together with the leader (the mechanism behind C05; see Monitors.tla)
              \cup (IF "ae" \in AsyncKinds /\ "ReadNoQuorum" \notin W /\ \E r \in Servable(new) :
                        ~\E k \in DOMAIN new.rsp : k >= r.vround /\ Quorum(new, 1 + Cardinality(new.rsp[k]))
                    THEN {"ReadWithoutMajority"} ELSE {})
  IN [el |-> el2, c |-> CommNext(c, old, new), vd |-> vd2, ak |-> ak2, v |-> v2]

\* apply the observation of one or two changed nodes to the history variables
Hist1(n, new) ==
  LET o == Observe(n, ns[n], new, elected, comm, voted, acked, viol) IN
  /\ elected' = o.el /\ comm' = o.c /\ voted' = o.vd /\ acked' = o.ak /\ viol' = o.v

Hist2(n, newn, p, newp) ==
  LET o1 == Observe(p, ns[p], newp, elected, comm, voted, acked, viol)
      o2 == Observe(n, ns[n], newn, o1.el, o1.c, o1.vd, o1.ak, o1.v) IN
  /\ elected' = o2.el /\ comm' = o2.c /\ voted' = o2.vd /\ acked' = o2.ak /\ viol' = o2.v

Spend(what) == budget[what] > 0 /\ budget' = [budget EXCEPT ![what] = budget[what] - 1]

-----------------------------------------------------------------------------
(* Actions *)

Up(n) == ns[n].role # "D"
Linked(n, p) == MayLink = {} \/ {n, p} \in MayLink

\* election(): the whole critical section run by the election loop when the timer fires, as a
\* function of the node's state (used by the action below and by Heal.tla's recovery strategy)
FireNode(s, n) ==
  LET \* a candidate may hold the election its prevote permitted (role C reached with `stay':
      \* the prevote round is still the current round, pre = TRUE); a candidate whose
      \* election timed out goes back to the prevote (fix for S13; the weakening restores
      \* the former behaviour: term incremented again without a prevote)
      s1 == IF s.role = "C" /\ (s.pre \/ "CandidateNoPrevote" \in W) THEN BecomeCandidate(s, n)
            \* (weakening PrevoteCountKept: a pre-candidate whose timer fires again keeps its count)
            ELSE [s EXCEPT !.role = "P", !.votes = IF "PrevoteCountKept" \in W /\ s.role = "P" THEN s.votes ELSE 1, !.asked = {}, !.pre = TRUE]
      \* only voter: nobody to ask, leader at once -- through becomeCandidate (new term, own
      \* vote) since fix bc71823; the weakening restores the old shortcut
      s2 == IF ~SingleServer(s1, n) THEN s1
            ELSE IF s1.role = "P" /\ "SingleVoterNoTerm" \notin W THEN BecomeLeader(BecomeCandidate(s1, n), n)
            ELSE BecomeLeader([s1 EXCEPT !.pre = FALSE], n) IN
  IF s2.role = "L" /\ SingleServer(s2, n) THEN [s2 EXCEPT !.commit = CommitIndexOf(s2, n)] ELSE s2

TimerFire(n) ==
  LET s == ns[n] IN
  /\ "rv" \notin AsyncKinds /\ n \in MayTimeout
  /\ s.role \in {"F", "P", "C"}
  /\ IsVoter(s, n) \/ "NonVoterCampaigns" \in W
  /\ s.term < MaxTerm
  /\ Spend("timer")
  /\ LET s3 == FireNode(s, n) IN
     /\ ns' = Elapse([ns EXCEPT ![n] = Fin(s, s3)])
     /\ Hist1(n, s3)
  /\ UNCHANGED net

\* one RequestVote RPC between candidate state s (node n) and voter state sp, and one
\* AppendEntries RPC between leader state s and follower state sp, as functions
RVPair(s, sp, n, p, sticky, stay) ==
  LET m == RVRequest(s, n)
      h == HandleRV(sp, m, sticky)
      c == OnRVReply([s EXCEPT !.asked = s.asked \cup {p}], n, m, h.reply, stay)
      c2 == IF c.role = "L" /\ SingleServer(c, n) THEN [c EXCEPT !.commit = CommitIndexOf(c, n)] ELSE c IN
  [c |-> c2, h |-> h.s]
AEPair(s0, sp, n, p) ==
  LET s == Touch(s0)
      m == AERequest(s, n, p)
      h == HandleAE(sp, m) IN
  [c |-> OnAEReply(s, n, p, m, h.reply), h |-> h.s]

\* one RequestVote RPC, synchronously: n asks p
RVExchange(n, p) ==
  LET s == ns[n] IN
  /\ "rv" \notin AsyncKinds
  /\ n # p /\ Up(n) /\ Up(p) /\ Linked(n, p)
  /\ s.role \in {"P", "C"} /\ s.votes > 0
  /\ (s.role = "P") = s.pre           \* the round in progress belongs to the current role
  /\ p \in VotersOf(s) /\ p \notin s.asked /\ IsVoter(s, n)
  /\ \E sticky \in IF ns[p].term > RVRequest(s, n).term /\ ~Gen THEN BOOLEAN ELSE {FALSE} :
     \E stay \in IF s.vote \notin {Nil, n} /\ ~Gen THEN BOOLEAN ELSE {FALSE} :
       LET r == RVPair(s, ns[p], n, p, sticky, stay) IN
       /\ ns' = Elapse([ns EXCEPT ![p] = Fin(ns[p], r.h), ![n] = Fin(s, r.c)])
       /\ Hist2(n, r.c, p, r.h)
  /\ UNCHANGED <<net, budget>>

\* the request is handled but the reply is lost
RVHalf(n, p) ==
  LET s == ns[n] IN
  /\ "rv" \notin AsyncKinds
  /\ n # p /\ Up(n) /\ Up(p) /\ Linked(n, p)
  /\ s.role \in {"P", "C"} /\ s.votes > 0 /\ (s.role = "P") = s.pre
  /\ p \in VotersOf(s) /\ p \notin s.asked /\ IsVoter(s, n)
  /\ Spend("half")
  /\ LET m == RVRequest(s, n)
         h == HandleRV(ns[p], m, FALSE)
         c == [s EXCEPT !.asked = s.asked \cup {p}] IN
     /\ h.s # ns[p]                     \* otherwise identical to "nothing happened"
     /\ ns' = Elapse([ns EXCEPT ![p] = h.s, ![n] = c])
     /\ Hist2(n, c, p, h.s)
  /\ UNCHANGED net

AEExchange(n, p) ==
  LET s == ns[n] IN
  /\ "ae" \notin AsyncKinds
  /\ n # p /\ Up(n) /\ Up(p) /\ Linked(n, p)
  /\ s.role = "L" /\ p \in MembersOf(s)
  /\ s.next[p] > s.li.idx              \* otherwise a snapshot is sent (ISExchange)
  /\ Spend("ae")
  /\ LET r == AEPair(s, ns[p], n, p) IN
     /\ ns' = [ns EXCEPT ![p] = Fin(ns[p], r.h), ![n] = Fin(s, r.c)]
     /\ Hist2(n, r.c, p, r.h)
  /\ UNCHANGED net

AEHalf(n, p) ==
  LET s == ns[n] IN
  /\ "ae" \notin AsyncKinds
  /\ n # p /\ Up(n) /\ Up(p) /\ Linked(n, p)
  /\ s.role = "L" /\ p \in MembersOf(s) /\ s.next[p] > s.li.idx
  /\ Spend("half") /\ budget["ae"] > 0
  /\ LET m == AERequest(s, n, p)
         h == HandleAE(ns[p], m) IN
     /\ h.s # ns[p]
     /\ ns' = [ns EXCEPT ![p] = Fin(ns[p], h.s)]
     /\ Hist1(p, h.s)
  /\ UNCHANGED net



\* AddServer / RemoveServer at a leader.  Guards as in the code (incl. fix aae2d61: a change
\* whose future is outstanding is pending).  The leader adopts an ADDED server's configuration
\* when it appends the entry, a REMOVAL only when it applies it.
PendingCfg(s) == s.cfut # 0 \/ s.ccfg.idx = 0 \/ s.ccfg.idx # s.cfg.idx
\* target: the server an AddServer call is about.  AddServer replaces the leader's replication
\* state for it (next index 1, match index 0, no open snapshot file) even when the server is a
\* member already and is only promoted or demoted - found as conformance drift of a replayed
\* membership behaviour (a re-elected leader had been probing the non-voter at the end of its log)
MemberChangeFor(n, nc, adopt, target) ==
  LET s == ns[n]
      i == LastIdx(s.log) + 1 IN
  /\ s.role = "L" /\ CommittedThisTerm(s)
  /\ ~PendingCfg(s) \/ "TwoPendingChanges" \in W
  \* environment restriction of the S5-free configurations (not a property of the code): a change
  \* is only requested once every running node has applied the configuration in force, so that
  \* no node is ever two configurations behind (known finding S5, DESIGN.md 12.4)
  /\ "Env:S5Free" \in W => \A q \in Node : ns[q].role = "D" \/ ns[q].cfg.idx = 0 \/ ns[q].ccfg.idx = s.cfg.idx
  /\ i <= MaxLog
  /\ budget.cfg > 0 /\ budget' = [budget EXCEPT !.cfg = budget.cfg - 1]
  /\ LET s1 == [s EXCEPT !.log = AppendTo(s.log, <<Entry(s.term, "cfg", [v |-> nc.v, n |-> nc.n])>>),
                         !.cfut = i,
                         !.cfg = IF adopt THEN Cfg(i, nc.v, nc.n) ELSE s.cfg,
                         !.next = [q \in Node |-> IF q \in (nc.v \cup nc.n) \ MembersOf(s) \/ q = target THEN 1 ELSE s.next[q]],
                         !.match = [q \in Node |-> IF q = target THEN 0 ELSE s.match[q]],
                         !.sfile = [q \in Node |-> IF q = target THEN NoFile ELSE s.sfile[q]],
                         !.soff = [q \in Node |-> IF q = target THEN 0 ELSE s.soff[q]],
                         \* (counted at the asynchronous grain only: without requests in flight the generation is unobservable)
                         !.fep = [q \in Node |-> IF q = target /\ "ae" \in AsyncKinds THEN s.fep[q] + 1 ELSE s.fep[q]]]
         \* (as a submission, a membership request starts a replication round at once: IdleNode)
         s2 == IdleNode(IF SingleServer(s1, n) THEN [s1 EXCEPT !.commit = CommitIndexOf(s1, n)] ELSE s1) IN
     /\ ns' = [ns EXCEPT ![n] = Fin(s, s2)]
     /\ Hist1(n, s2)
  /\ UNCHANGED net

MemberChange(n, nc, adopt) == MemberChangeFor(n, nc, adopt, Nil)

AddServer(n, p, voter) ==
  LET s == ns[n] IN
  /\ ~(p \in MembersOf(s) /\ (p \in s.cfg.v) = voter)
  /\ MemberChangeFor(n, [v |-> IF voter THEN s.cfg.v \cup {p} ELSE s.cfg.v \ {p},
                         n |-> IF voter THEN s.cfg.n \ {p} ELSE s.cfg.n \cup {p}], TRUE, p)

RemoveServer(n, p) ==
  LET s == ns[n] IN
  /\ p \in MembersOf(s)
  /\ MemberChange(n, [v |-> s.cfg.v \ {p}, n |-> s.cfg.n \ {p}], "RemoveAdoptsAtAppend" \in W)

\* the state machine will ask for a snapshot after the next entry it applies
ArmSnapshot(n) ==
  /\ Up(n) /\ ~ns[n].arm /\ MaxSnap > 0
  /\ Spend("snap")
  /\ ns' = [ns EXCEPT ![n].arm = TRUE]
  /\ UNCHANGED <<net, elected, comm, voted, acked, viol>>

\* one InstallSnapshot RPC, synchronously (sent instead of AppendEntries when the follower's
\* next index is at or below the leader's boundary)
ISExchange(n, p) ==
  LET s == ns[n] IN
  /\ n # p /\ Up(n) /\ Up(p)
  /\ s.role = "L" /\ p \in MembersOf(s)
  /\ "is" \notin AsyncKinds
  /\ s.next[p] <= s.li.idx /\ s.li.idx > 0
  /\ ~ns[p].spub                       \* the receiver's last chunk waits for its own takeSnapshot to finish
  /\ Spend("ae")
  \* At this grain the transfer is one step: the file from offset 0 to the end, then the
  \* completion on the sender.  (How many requests that takes in the code depends on the
  \* sender's file offset, which every lost request advances; the request-level operators
  \* ISRequest / HandleIS / OnISReply with offsets are exercised at the handler grain.)
  /\ LET t == Touch(s)
         m == [ISRequest([t EXCEPT !.soff[p] = 0], n, p) EXCEPT !.n = SnapSize, !.done = TRUE]
         h == HandleIS([ns[p] EXCEPT !.rs = [idx |-> 0, term |-> 0, off |-> 0]], m)
         c == IF h.reply.term > s.term THEN BecomeFollower(s, h.reply.term, "isr")
              ELSE [t EXCEPT !.soff[p] = 0, !.sfile[p] = NoFile, !.match[p] = m.idx, !.next[p] = m.idx + 1] IN
     /\ ns' = [ns EXCEPT ![p] = Fin(ns[p], h.s), ![n] = Fin(s, c)]
     /\ Hist2(n, c, p, h.s)
  /\ UNCHANGED net

ClientSubmit(n, v) ==
  LET s == ns[n] IN
  /\ s.role = "L"
  /\ LastIdx(s.log) < MaxLog
  /\ \A m \in Node : \A j \in 1..Len(ns[m].log.ents) : ns[m].log.ents[j].v # v     \* each payload submitted once
  \* (behaviour generation: which of the unused payloads is submitted makes no difference)
  /\ Gen => v = CHOOSE u \in Value : \A m \in Node : \A j \in 1..Len(ns[m].log.ents) : ns[m].log.ents[j].v # u
  /\ Spend("client")
  /\ LET s1 == [s EXCEPT !.log = AppendTo(s.log, <<Entry(s.term, "op", v)>>),
                         !.pend = [i \in DOMAIN s.pend \cup {LastIdx(s.log) + 1} |->
                                     IF i = LastIdx(s.log) + 1 THEN v ELSE s.pend[i]]]
         \* (the replication round a submission starts is not a step of the asynchronous grain: its
         \* requests are lost, its trace on the sender of a snapshot remains - IdleNode)
         s2 == IdleNode(Touch(IF SingleServer(s1, n) THEN [s1 EXCEPT !.commit = CommitIndexOf(s1, n)] ELSE s1)) IN
     /\ ns' = [ns EXCEPT ![n] = Fin(s, s2)]
     /\ Hist1(n, s2)
  /\ UNCHANGED net

\* process crash: durable = term, vote (unless a persistence weakening is on), log
Crash(n) ==
  LET s == ns[n] IN
  /\ Up(n)
  /\ Spend("crash")
  /\ LET dt == IF "TermNotPersisted" \in W THEN 0 ELSE s.dterm
         dv == IF "VoteNotPersisted" \in W \/ "TermNotPersisted" \in W THEN Nil ELSE s.dvote
         \* restore(): the log as it is on disk, boundary and commit/applied from the newest snapshot
         \* restore(): configuration in force = the latest configuration entry in the log, committed
         \* or not; committed configuration = the one before it (from the log or the snapshot)
         cidx == {i \in (s.snap.idx + 1)..LastIdx(s.log) : HasIdx(s.log, i) /\ At(s.log, i).k = "cfg"}
         top == IF cidx = {} THEN 0 ELSE CHOOSE i \in cidx : \A j \in cidx : j <= i
         below == cidx \ {top}
         sec == IF below = {} THEN 0 ELSE CHOOSE i \in below : \A j \in below : j <= i
         asCfg(i) == Cfg(i, At(s.log, i).v.v, At(s.log, i).v.n)
         cf == IF top # 0 THEN asCfg(top) ELSE s.scfg
         ccf == IF top = 0 THEN s.scfg ELSE IF sec # 0 THEN asCfg(sec) ELSE s.scfg
         s1 == [InitNode EXCEPT !.me = s.me, !.role = "D", !.term = dt, !.vote = dv, !.dterm = dt, !.dvote = dv,
                                !.log = s.log, !.snap = s.snap, !.li = s.snap, !.commit = s.snap.idx,
                                !.scfg = s.scfg, !.cfg = cf, !.ccfg = ccf, !.xtra = s.xtra, !.xops = s.xops, !.apl = s.snap.idx] IN
     /\ ns' = [ns EXCEPT ![n] = s1]
     \* C08: the term a node has shown to others never decreases, not even across a crash
     /\ elected' = elected /\ comm' = comm /\ voted' = voted /\ acked' = acked
     /\ viol' = viol \cup (IF dt < s.term THEN {"TermMonotone"} ELSE {})
  \* (behaviour generation: the replay harness cannot keep the requests of a crashed process in
  \* flight - its connections die with it -, so they and the answers it was waiting for are lost)
  /\ net' = IF Gen THEN {m \in net : ~(m.kind \in {"rvq", "aeq", "isq"} /\ m.from = n) /\ ~(m.kind \in {"rvr", "aer", "isr"} /\ m.to = n)}
            ELSE net

\* takeSnapshot's second critical section (only with Env:SnapWindow)
AdoptSnapshot(n) ==
  /\ Up(n) /\ ns[n].spub
  /\ ns' = [ns EXCEPT ![n] = Fin(ns[n], AdoptNode(ns[n]))]
  /\ UNCHANGED <<net, budget, elected, comm, voted, acked, viol>>

Restart(n) ==
  /\ ns[n].role = "D"
  /\ ns' = [ns EXCEPT ![n].role = "F"]
  /\ UNCHANGED <<net, budget, elected, comm, voted, acked, viol>>

-----------------------------------------------------------------------------
(* Asynchronous grain for the kinds in AsyncKinds: requests and replies travel through      *)
(* `net', so a reply can be processed long after the state it was built from is gone.       *)
(* Every round of requests (one sendRequestVoteToPeers / sendAppendEntriesToPeers call)     *)
(* has its own response counter, as in the code; all requests of a round are built in the   *)
(* step that starts it (DESIGN.md 3.7, AtomicSpawn).                                        *)

Get(f, k, d) == IF k \in DOMAIN f THEN f[k] ELSE d
PutF(f, k, v) == [x \in DOMAIN f \cup {k} |-> IF x = k THEN v ELSE f[x]]

\* requests of a new vote round of node n in state s (s already is P or C for this round)
VoteRound(s, n) ==
  LET k == s.vr + 1
      s1 == [s EXCEPT !.vr = k, !.cnt = PutF(s.cnt, <<"v", k>>, 1)]
      ms == {[RVRequest(s1, n) EXCEPT !.kind = "rvq"] @@ [to |-> p, round |-> k] : p \in {q \in VotersOf(s1) \ {n} : Linked(n, q)}} IN
  [s |-> s1, ms |-> IF IsVoter(s1, n) THEN ms ELSE {}]

\* requests of a new replication round of leader n
ReplRound(s, n) ==
  LET k == s.hbr + 1
      s1 == [s EXCEPT !.hbr = k, !.cnt = PutF(s.cnt, <<"h", k>>, IF IsVoter(s, n) \/ "LeaderCountsItself" \in W THEN 1 ELSE 0)]
      ms == {[AERequest(s1, n, p) EXCEPT !.kind = "aeq"] @@ [to |-> p, round |-> k] :
               p \in {q \in MembersOf(s1) \ {n} : s1.next[q] > s1.li.idx /\ Linked(n, q)}}
      \* followers behind the compaction boundary get the next piece of the snapshot instead
      \* ("is" in AsyncKinds: request grain).  sendInstallSnapshot opens the newest file if none
      \* is open for the follower, reads from the file's position to its end into ONE request
      \* (which leaves the position at the end) and is Done iff that was less than a chunk.
      sq == IF "is" \in AsyncKinds /\ s1.li.idx > 0
              THEN {q \in MembersOf(s1) \ {n} : s1.next[q] <= s1.li.idx /\ Linked(n, q)} ELSE {}
      file(q) == IF s1.sfile[q].idx # 0 THEN s1.sfile[q] ELSE s1.snap
      is == {[ISRequest([s1 EXCEPT !.sfile[q] = file(q)], n, q) EXCEPT !.kind = "isq"] @@ [to |-> q, round |-> k] : q \in sq}
      s2 == [s1 EXCEPT !.sfile = [q \in Node |-> IF q \in sq THEN file(q) ELSE s1.sfile[q]],
                       !.soff = [q \in Node |-> IF q \in sq THEN SnapSize ELSE s1.soff[q]]] IN
  [s |-> s2, ms |-> ms \cup is]

\* election(): as TimerFire, plus the requests of the round it starts
TimerFireA(n) ==
  LET s == ns[n] IN
  /\ "rv" \in AsyncKinds /\ n \in MayTimeout
  /\ s.role \in {"F", "P", "C"} /\ IsVoter(s, n) /\ s.term < MaxTerm
  /\ Spend("timer")
  /\ LET s1 == IF s.role = "C" /\ (s.pre \/ "CandidateNoPrevote" \in W) THEN BecomeCandidate(s, n)
               \* (weakening PrevoteCountKept: a pre-candidate whose timer fires again keeps its count)
            ELSE [s EXCEPT !.role = "P", !.votes = IF "PrevoteCountKept" \in W /\ s.role = "P" THEN s.votes ELSE 1, !.asked = {}, !.pre = TRUE]
         r == VoteRound(s1, n) IN
     /\ ~SingleServer(s1, n)                \* single-voter clusters are covered at the synchronous grain
     /\ Cardinality(net) + Cardinality(r.ms) <= MaxNet
     /\ ns' = [ns EXCEPT ![n] = r.s]
     /\ net' = net \cup r.ms
     /\ Hist1(n, r.s)

RVHandle(m) ==
  /\ m \in net /\ m.kind = "rvq" /\ Up(m.to)
  /\ \E sticky \in IF ns[m.to].term > m.term /\ ~Gen THEN BOOLEAN ELSE {FALSE} :
       LET h == HandleRV(ns[m.to], m, sticky) IN
       /\ ns' = [ns EXCEPT ![m.to] = h.s]
       /\ net' = (net \ {m}) \cup {[kind |-> "rvr", from |-> m.to, to |-> m.from, round |-> m.round, req |-> m, reply |-> h.reply]}
       /\ Hist1(m.to, h.s)
  /\ UNCHANGED budget

\* sendRequestVote after the RPC returned: the vote is counted on the counter of the round the
\* request belongs to, the role tests look at the node as it is now.  SharedVoteCounter: one
\* counter per node instead of one per round.
RVReply(m) ==
  /\ m \in net /\ m.kind = "rvr" /\ Up(m.to)
  /\ LET s == ns[m.to]
         n == m.to
         key == IF "SharedVoteCounter" \in W THEN <<"v", s.vr>> ELSE <<"v", m.round>> IN
     IF s.term > SentTerm(m.req) /\ "NoStaleVoteReplyCheck" \notin W THEN
        /\ ns' = ns /\ net' = net \ {m} /\ UNCHANGED <<budget, elected, comm, voted, acked, viol>>
     ELSE
       LET c1 == Get(s.cnt, key, 1) + (IF m.reply.ok THEN 1 ELSE 0)
           s1 == [s EXCEPT !.cnt = PutF(s.cnt, key, c1)] IN
       IF m.reply.term > m.req.term THEN
          LET s2 == BecomeFollower(s1, m.reply.term, "rvr") IN
          /\ ns' = [ns EXCEPT ![n] = Fin(s, s2)] /\ net' = net \ {m} /\ Hist1(n, s2) /\ UNCHANGED budget
       ELSE IF Quorum(s1, c1) /\ s1.role = "P" /\ m.req.pre THEN
          \* prevote won: candidate at once (Gen: the contact has lapsed), real round spawned
          LET s2 == [BecomeCandidate(s1, n) EXCEPT !.pwon = m.req.term]
              r == VoteRound(s2, n) IN
          /\ s2.term <= MaxTerm
          /\ Cardinality(net) - 1 + Cardinality(r.ms) <= MaxNet
          /\ ns' = [ns EXCEPT ![n] = r.s] /\ net' = (net \ {m}) \cup r.ms /\ Hist1(n, r.s) /\ UNCHANGED budget
       \* (a late real vote can complete the quorum of the node's CURRENT term after its election
       \* timed out and it went back to pre-candidate: the code makes it candidate and, in the same
       \* critical section, leader of that term - found by replaying generated asynchronous behaviours)
       ELSE IF ~m.req.pre /\ Quorum(s1, c1) /\ s1.role \in {"C", "P"} THEN
          LET s2 == BecomeLeader(s1, n) IN
          /\ ns' = [ns EXCEPT ![n] = Fin(s, s2)] /\ net' = net \ {m} /\ Hist1(n, s2) /\ UNCHANGED budget
       ELSE
          /\ ns' = [ns EXCEPT ![n] = s1] /\ net' = net \ {m} /\ Hist1(n, s1) /\ UNCHANGED budget

\* heartbeat tick of a leader (also stands for the rounds the code starts on submit / commit)
StartRound(n) ==
  LET s == ns[n] IN
  /\ "ae" \in AsyncKinds
  /\ Up(n) /\ s.role = "L"
  /\ Spend("ae")
  /\ LET r == ReplRound(s, n) IN
     /\ Cardinality(net) + Cardinality(r.ms) <= MaxNet
     /\ ns' = [ns EXCEPT ![n] = r.s]
     /\ net' = net \cup r.ms
  /\ UNCHANGED <<elected, comm, voted, acked, viol>>

AEHandle(m) ==
  /\ m \in net /\ m.kind = "aeq" /\ Up(m.to)
  /\ LET h == HandleAE(ns[m.to], m) IN
     /\ ns' = [ns EXCEPT ![m.to] = Fin(ns[m.to], h.s)]
     /\ net' = (net \ {m}) \cup {[kind |-> "aer", from |-> m.to, to |-> m.from, round |-> m.round, req |-> m, reply |-> h.reply]}
     /\ Hist1(m.to, h.s)
  /\ UNCHANGED budget

\* InstallSnapshot at request grain
ISHandle(m) ==
  /\ m \in net /\ m.kind = "isq" /\ Up(m.to)
  /\ ~(m.done /\ ns[m.to].spub)        \* the last chunk waits for the receiver's own takeSnapshot
  /\ LET h == HandleIS(ns[m.to], m) IN
     /\ ns' = [ns EXCEPT ![m.to] = Fin(ns[m.to], h.s)]
     /\ net' = (net \ {m}) \cup {[kind |-> "isr", from |-> m.to, to |-> m.from, round |-> m.round, req |-> m, reply |-> h.reply]}
     /\ Hist1(m.to, h.s)
  /\ UNCHANGED budget

\* sendInstallSnapshot after the RPC returned (nothing happens if the files were reset meanwhile,
\* the node stopped leading, or the follower was removed)
ISReply(m) ==
  /\ m \in net /\ m.kind = "isr" /\ Up(m.to)
  \* a handler that kept the log answers only when it has compacted (it waits inside the call)
  /\ ~(ns[m.from].park /\ ns[m.from].li.idx = m.req.idx /\ m.req.done)
  /\ LET s == ns[m.to]
         n == m.to  p == m.from
         live == s.role = "L" /\ s.sfile[p].idx # 0 /\ p \in MembersOf(s)
         \* (an answer for a replaced follower record is only looked at for its term)
         orph == s.role = "L" /\ p \in MembersOf(s) /\ m.req.fe # s.fep[p]
         c == IF orph THEN (IF m.reply.term > s.term THEN BecomeFollower(s, m.reply.term, "isr") ELSE s)
              ELSE IF live THEN OnISReply(s, n, p, m.req, m.reply) ELSE s IN
     /\ ns' = [ns EXCEPT ![n] = Fin(s, c)]
     /\ Hist1(n, c)
  /\ net' = net \ {m}
  /\ UNCHANGED budget

\* a round that reached its quorum confirms leadership for the reads that may be confirmed by it
MarkVerified(s, round) ==
  [s EXCEPT !.svq = TRUE,
            !.reads = {[r EXCEPT !.ver = r.ver \/ r.vround <= round \/ "ReadAnyRound" \in W] : r \in s.reads}]

\* sendAppendEntries after the RPC returned
AEReply(m) ==
  /\ m \in net /\ m.kind = "aer" /\ Up(m.to)
  /\ LET s == ns[m.to]
         n == m.to  p == m.from
         live == p \in MembersOf(s) /\ s.role = "L" /\ (m.req.term = s.term \/ "NoStaleAEReplyCheck" \in W)
         key == <<"h", m.round>>
         counts == live /\ m.reply.term <= s.term /\ (IsVoter(s, p) \/ "HBCountsNonVoters" \in W)
         c1 == Get(s.cnt, key, IF IsVoter(s, n) THEN 1 ELSE 0) + 1
         s0 == IF counts THEN [s EXCEPT !.cnt = PutF(s.cnt, key, c1), !.rsp = PutF(s.rsp, m.round, Get(s.rsp, m.round, {}) \cup {p})] ELSE s
         s1 == IF counts /\ Quorum(s, c1) THEN MarkVerified(s0, m.round) ELSE s0
         c0 == OnAEReply(s1, n, p, m.req, m.reply)
         c == IF c0.commit > s.commit THEN IdleNode(c0) ELSE c0      \* a commit starts a round as well
         \* weakening RejectRetriesInRound: a rejected request is retried at once - with the
         \* round's response counter, so that one follower is counted twice
         retry == IF "RejectRetriesInRound" \in W /\ live /\ ~m.reply.ok /\ m.reply.term <= s.term /\ c.role = "L" /\ c.next[p] > c.li.idx
                    THEN {[AERequest(c, n, p) EXCEPT !.kind = "aeq"] @@ [to |-> p, round |-> m.round]} ELSE {}
         \* a rejection that moves the follower's next index to or below the compaction boundary is
         \* followed at once, by the same goroutine, by the next piece of the snapshot (request grain)
         isnow == "is" \in AsyncKinds /\ live /\ ~m.reply.ok /\ m.reply.term <= s.term /\ c.role = "L"
                  /\ c.li.idx > 0 /\ (IF m.req.fe = s.fep[p] THEN c.next[p] ELSE m.reply.hint) <= c.li.idx /\ Linked(n, p)
         file == IF c.sfile[p].idx # 0 THEN c.sfile[p] ELSE c.snap
         ism == IF isnow THEN {[ISRequest([c EXCEPT !.sfile[p] = file], n, p) EXCEPT !.kind = "isq"] @@ [to |-> p, round |-> m.round]} ELSE {}
         c2 == IF isnow THEN [c EXCEPT !.sfile[p] = file, !.soff[p] = SnapSize] ELSE c IN
     /\ ns' = [ns EXCEPT ![n] = Fin(s, c2)]
     /\ Hist1(n, c2)
     /\ net' = (net \ {m}) \cup retry \cup ism
  /\ UNCHANGED budget

\* submitReadOnlyOperation (linearizable): read index, first round that may confirm it, and a
\* new round at once unless one started by an earlier read is still unanswered
ClientRead(n) ==
  LET s == ns[n] IN
  /\ "ae" \in AsyncKinds /\ Up(n) /\ s.role = "L"
  /\ Spend("read")
  /\ LET ridx == IF CommittedThisTerm(s) \/ "ReadIndexStale" \in W THEN s.commit ELSE LastIdx(s.log)
         vround == IF ~s.svq /\ "ReadJoinsRoundInFlight" \in W THEN s.rvr ELSE s.hbr + 1
         rd == [id |-> budget.read, ridx |-> ridx, vround |-> vround, ver |-> "ReadNoQuorum" \in W, must |-> acked]
         s1 == [s EXCEPT !.reads = s.reads \cup {rd}]
         r == IF s.svq THEN ReplRound([s1 EXCEPT !.svq = FALSE, !.rvr = s.hbr + 1], n) ELSE [s |-> s1, ms |-> {}] IN
     /\ Cardinality(net) + Cardinality(r.ms) <= MaxNet
     /\ ns' = [ns EXCEPT ![n] = Fin(s, r.s)]
     /\ net' = net \cup r.ms
     /\ Hist1(n, r.s)

\* loss
Lose(m) ==
  /\ m \in net
  /\ net' = net \ {m}
  /\ UNCHANGED <<ns, budget, elected, comm, voted, acked, viol>>

-----------------------------------------------------------------------------
Init ==
  \* members of the bootstrap configuration are bootstrapped; the other nodes start with an
  \* empty configuration (they never campaign) and wait to be added
  /\ ns = [n \in Node |-> IF n \in InitVoters THEN [InitNode EXCEPT !.me = n]
                          ELSE [InitNode EXCEPT !.me = n, !.cfg = NoCfg, !.log = [base |-> 0, bterm |-> 0, ents |-> <<>>]]]
  /\ net = {}
  /\ budget = [timer |-> MaxTimer, ae |-> MaxAE, client |-> MaxClient, crash |-> MaxCrash, half |-> MaxHalf, snap |-> MaxSnap, read |-> MaxRead, cfg |-> MaxCfg]
  /\ elected = {} /\ comm = <<>> /\ voted = {} /\ acked = 0 /\ viol = {}

Next ==
  \/ \E n \in Node : TimerFire(n)
  \/ \E n, p \in Node : RVExchange(n, p) \/ RVHalf(n, p) \/ AEExchange(n, p) \/ AEHalf(n, p)
  \/ \E n \in Node, v \in Value : ClientSubmit(n, v)
  \/ \E n \in Node : Crash(n) \/ Restart(n) \/ ArmSnapshot(n) \/ AdoptSnapshot(n)
  \/ \E n, p \in Node : ISExchange(n, p)
  \/ \E n, p \in Node : RemoveServer(n, p) \/ \E voter \in BOOLEAN : AddServer(n, p, voter)
  \/ \E n \in Node : TimerFireA(n) \/ StartRound(n) \/ ClientRead(n)
  \/ \E m \in net : RVHandle(m) \/ RVReply(m) \/ AEHandle(m) \/ AEReply(m) \/ ISHandle(m) \/ ISReply(m) \/ Lose(m)

Spec == Init /\ [][Next]_vars

-----------------------------------------------------------------------------
(* Properties *)

\* C02: at most one leader per term
ElectionSafety == \A a, b \in elected : a[1] = b[1] => a[2] = b[2]

\* C06: log matching over the durable logs
LogMatching ==
  \A a, b \in Node :
    LET la == ns[a].log  lb == ns[b].log
        lo == Max(la.base, lb.base) + 1
        hi == Min(LastIdx(la), LastIdx(lb)) IN
    \A i \in lo..hi : At(la, i).t = At(lb, i).t => \A j \in lo..i : At(la, j) = At(lb, j)

\* C01 (commit = apply order in this module), C07, C08 and the monotonicity clauses are
\* observed at the action that would break them
NoViolation == viol = {}
\* used when looking for attack schedules: a violation an execution of the code can show
NoOpViolation == "StateMachineSafetyOp" \notin viol
NoStaleRead == "StaleRead" \notin viol
ReadsHeardMajority == "ReadWithoutMajority" \notin viol
PrevoteMajority == "CandidateWithoutPrevoteMajority" \notin viol
\* C16 (mechanism): a candidate of term t was permitted by a prevote round that asked about t
PrevoteForThisTerm == \A n \in Node : ns[n].role = "C" /\ ~ns[n].pre /\ "CandidateNoPrevote" \notin W => ns[n].pwon = ns[n].term

\* C05 (mechanism): a round's counter never exceeds the leader itself plus the distinct voters
\* that answered it - a read is confirmed by a majority of DIFFERENT voters
RoundQuorumDistinct ==
  \A n \in Node : \A key \in DOMAIN ns[n].cnt :
    key[1] = "h" => ns[n].cnt[key] <= 1 + Cardinality(Get(ns[n].rsp, key[2], {}))

\* C16 / C02 (mechanism): in a vote round a node never counts more grants than it has asked voters
VotesWithinAsked == \A n \in Node : ns[n].role \in {"P", "C"} /\ "rv" \notin AsyncKinds => ns[n].votes <= 1 + Cardinality(ns[n].asked)

\* C10: a state machine restored from an installed snapshot holds exactly the operations up to the
\* label it was installed under
SnapshotLabelExact == \A n \in Node : ns[n].xtra = 0
SnapshotLabelExactOp == \A n \in Node : ns[n].xops = 0

\* C09: the configuration a node has in force is a configuration entry of its own log or lies
\* within its snapshot
CfgInLog ==
  \A n \in Node : Up(n) =>
    LET s == ns[n] IN
    s.cfg.idx = 0 \/ s.cfg.idx <= s.log.base \/ (HasIdx(s.log, s.cfg.idx) /\ At(s.log, s.cfg.idx).k = "cfg")

\* committed entries are on a majority of the voters' durable logs (C04, static membership)
CommittedDurable ==
  MaxCfg > 0 \/ \A i \in DOMAIN comm :
    \* (an entry covered by a node's newest snapshot is on that node's disk as well)
    Cardinality({n \in InitVoters : i <= ns[n].snap.idx \/ (HasIdx(ns[n].log, i) /\ At(ns[n].log, i) = comm[i].e)}) * 2 > Cardinality(InitVoters)

\* the same for client operations only (what an execution of the code shows: applications and
\* acknowledgements)
OpDurable ==
  MaxCfg > 0 \/ \A i \in {j \in DOMAIN comm : comm[j].e.k = "op"} :
    \* (an entry covered by a node's newest snapshot is on that node's disk as well)
    Cardinality({n \in InitVoters : i <= ns[n].snap.idx \/ (HasIdx(ns[n].log, i) /\ At(ns[n].log, i) = comm[i].e)}) * 2 > Cardinality(InitVoters)

TypeOK ==
  /\ \A n \in Node : ns[n].term \in 0..MaxTerm /\ ns[n].role \in {"F", "P", "C", "L", "D"}
                     /\ ns[n].commit <= LastIdx(ns[n].log)

=============================================================================
