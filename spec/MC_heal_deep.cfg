\* C15 at design level, deeper (thorough tier, time-boxed)
CONSTANTS
  Node = {a, b, c}
  InitVoters = {a, b, c}
  Value = {x}
  Nil = Nil
  MaxTerm = 3
  MaxLog = 4
  MaxTimer = 4
  MaxAE = 2
  MaxClient = 1
  MaxCrash = 1
  MaxHalf = 1
  MaxCfg = 0
  MaxRead = 0
  MaxSnap = 0
  SnapSize = 1
  AsyncKinds = {}
  MaxNet = 0
  W = {}
  MayTimeout = {a, b, c}
  MayLink = {}
  Gen = FALSE
SPECIFICATION Spec
INVARIANTS Recoverable
CHECK_DEADLOCK FALSE
