\* three static voters with snapshots (armed by the environment, taken after the next apply),
\* snapshot transfer, crash and restart from a snapshot: exhaustive
CONSTANTS
  Node = {a, b, c}
  InitVoters = {a, b, c}
  Value = {x, y}
  Nil = Nil
  MaxTerm = 2
  MaxLog = 5
  MaxTimer = 4
  MaxAE = 3
  MaxClient = 2
  MaxCrash = 1
  MaxHalf = 0
  MaxCfg = 0
  MaxRead = 0
  MaxSnap = 1
  SnapSize = 1
  AsyncKinds = {}
  MaxNet = 0
  W = {}
  Gen = FALSE
SPECIFICATION Spec
SYMMETRY Symm
INVARIANTS ElectionSafety LogMatching NoViolation TypeOK
CHECK_DEADLOCK FALSE
