------------------------------ MODULE Handlers ------------------------------
(***************************************************************************)
(* Single node versus environment (DESIGN.md 3.7, "node" grain) for the    *)
(* AppendEntries handler: TLC enumerates every well-formed pair            *)
(* (follower state, request) of a bounded domain and, with the very        *)
(* operator Raft.tla uses (HandleAE), the reply and post-state the         *)
(* specification predicts.  Each case becomes one test of the exported     *)
(* handler on a real node constructed over that state (C06 ii).            *)
(*                                                                         *)
(* Follower: the bootstrap entry plus up to K entries with non-decreasing  *)
(* terms in 1..T, compacted up to b <= commit, commit <= last, any current *)
(* term >= its last term.  Request: what a leader holding a log LL of the  *)
(* same domain - LogMatching(LL, follower), follower's committed prefix    *)
(* contained in LL unless the request is stale in term - would have sent   *)
(* from some earlier prefix of LL (stale, duplicated and reordered         *)
(* requests are requests built from earlier prefixes), for every nextIndex *)
(* and leaderCommit, with a lower, equal or higher term.                   *)
(***************************************************************************)
EXTENDS Raft, Json

CONSTANTS K, T

Terms == 1..T
\* non-decreasing term sequences of length n
RECURSIVE Mono(_)
Mono(n) == IF n = 0 THEN {<<>>} ELSE {Append(q, t) : q \in Mono(n - 1), t \in Terms} 
NonDecr(q) == \A j \in 1..(Len(q) - 1) : q[j] <= q[j + 1]
TermSeqs == UNION {{q \in Mono(n) : NonDecr(q)} : n \in 0..K}

\* a full (uncompacted) log: bootstrap entry at 1, then one entry per term of the sequence
EntryAt(i, t) == Entry(t, IF i % 2 = 0 THEN "noop" ELSE "op", IF i % 2 = 0 THEN Nil ELSE <<"e", i, t>>)
FullLog(q) == <<BootEntry>> \o [j \in 1..Len(q) |-> EntryAt(j + 1, q[j])]
TermOf(full, i) == IF i = 0 THEN 0 ELSE full[i].t

Compacted(full, b) == [base |-> b, bterm |-> TermOf(full, b), ents |-> SubSeq(full, b + 1, Len(full))]

Matching(fa, fb) ==
  \A i \in 1..Min(Len(fa), Len(fb)) : fa[i].t = fb[i].t => \A j \in 1..i : fa[j] = fb[j]

\* enumerated with dependent ranges (the plain product is far too large to filter)
CasesFor(fq, lq) ==
  LET ff == FullLog(fq)  ll == FullLog(lq) IN
  IF ~Matching(ff, ll) THEN {} ELSE
  { x \in { [fq |-> fq, b |-> b, c |-> c, ft |-> ft, lq |-> lq, plen |-> plen, nx |-> nx, lc |-> lc, dt |-> dt] :
               b \in 0..Len(ff), c \in 0..Len(ff), ft \in Max(1, TermOf(ff, Len(ff)))..(T + 1),
               plen \in 1..Len(ll), nx \in 1..(Len(ll) + 1), lc \in 0..Len(ll), dt \in {-1, 0, 1} } :
      LET lp == SubSeq(ll, 1, x.plen)
          rt == x.ft + x.dt IN
      /\ x.b <= x.c
      /\ x.nx <= x.plen + 1
      /\ x.lc <= x.plen
      /\ rt >= 1 /\ rt >= TermOf(lp, Len(lp)) /\ rt <= T + 1
      \* what the follower knows to be committed is in the leader's log (the whole log, not the
      \* prefix: a leader never lacks a committed entry; an old request may well end before it)
      /\ (rt >= x.ft => /\ x.c <= Len(ll) /\ \A j \in 1..x.c : ll[j] = ff[j]) }

Cases == UNION {CasesFor(fq, lq) : fq \in TermSeqs, lq \in TermSeqs}

Request(x) ==
  LET ll == FullLog(x.lq)
      lp == SubSeq(ll, 1, x.plen) IN
  [kind |-> "ae", from |-> "L", term |-> x.ft + x.dt, prev |-> x.nx - 1, prevt |-> TermOf(lp, x.nx - 1),
   ents |-> SubSeq(lp, x.nx, Len(lp)), commit |-> x.lc]

Follower(x) ==
  [InitNode EXCEPT !.term = x.ft, !.log = Compacted(FullLog(x.fq), x.b), !.commit = x.c]

KindNo(k) == IF k = "cfg" THEN 2 ELSE IF k = "noop" THEN 0 ELSE 1
Val(e) == IF e.k = "op" THEN "e" \o ToString(e.v[2]) \o "t" \o ToString(e.v[3]) ELSE ""
Wire(es, first) == [j \in 1..Len(es) |-> [i |-> first + j - 1, t |-> es[j].t, k |-> KindNo(es[j].k), v |-> Val(es[j])]]

Out(x) ==
  LET s == Follower(x)  m == Request(x)  h == HandleAE(s, m) IN
  [ prep |-> [term |-> x.ft, ents |-> Wire(FullLog(x.fq), 1), snap_idx |-> x.b],
    commit |-> x.c,
    req |-> [term |-> m.term, prev |-> m.prev, prevt |-> m.prevt, commit |-> m.commit, ents |-> Wire(m.ents, m.prev + 1)],
    exp |-> [ok |-> h.reply.ok, hint |-> h.reply.hint, rterm |-> h.reply.term,
             last |-> LastIdx(h.s.log), lastt |-> LastTerm(h.s.log), commit |-> h.s.commit] ]

VARIABLE case
HInit == /\ case \in Cases
         /\ ns = [n \in Node |-> InitNode] /\ net = {} /\ budget = <<>> /\ elected = {} /\ comm = <<>> /\ voted = {} /\ acked = 0 /\ viol = {}
HNext == UNCHANGED <<case, vars>>
Emit == PrintT("CASE|" \o ToJson(Out(case)))
=============================================================================
