------------------------------ MODULE StoreAbs ------------------------------
(***************************************************************************)
(* What the storages promise, independent of files (C12, C13): the log a   *)
(* sequence of returned operations denotes, and the set of logs a reopen   *)
(* may yield when a crash interrupted one more operation.                  *)
(* A log is [base, bterm, ents]; an entry is [i, t, k, n].                 *)
(***************************************************************************)
EXTENDS Integers, Sequences, FiniteSets

EmptyLog == [base |-> 0, bterm |-> 0, ents |-> <<>>]
LastIdx(lg) == lg.base + Len(lg.ents)
HasIdx(lg, i) == i > lg.base /\ i <= LastIdx(lg)
At(lg, i) == lg.ents[i - lg.base]

\* effect of one returned operation
ApplyOp(lg, op) ==
  IF op.op = "append" THEN [lg EXCEPT !.ents = lg.ents \o op.ents]
  ELSE IF op.op = "truncate" THEN
       IF HasIdx(lg, op.i) THEN [lg EXCEPT !.ents = SubSeq(lg.ents, 1, op.i - lg.base - 1)] ELSE lg
  ELSE IF op.op = "compact" THEN
       IF HasIdx(lg, op.i) THEN [base |-> op.i, bterm |-> At(lg, op.i).t, ents |-> SubSeq(lg.ents, op.i - lg.base + 1, Len(lg.ents))] ELSE lg
  ELSE IF op.op = "discard" THEN [base |-> op.i, bterm |-> op.t, ents |-> <<>>]
  ELSE lg            \* open, close

\* an operation the log accepts (others return an error and change nothing)
Applicable(lg, op) ==
  IF op.op \in {"truncate", "compact"} THEN HasIdx(lg, op.i) ELSE TRUE

\* logs a reopen may yield after a crash during `op' (none in flight: op.op = "none")
Allowed(lg, op) ==
  IF op.op = "append" THEN {[lg EXCEPT !.ents = lg.ents \o SubSeq(op.ents, 1, j)] : j \in 0..Len(op.ents)}
  ELSE IF op.op \in {"truncate", "compact", "discard"} THEN {lg, ApplyOp(lg, op)}
  ELSE {lg}
=============================================================================
