\* snapshots with takeSnapshot as two steps (publish, adopt): the leader-side window
CONSTANTS
  Node = {a, b, c}
  InitVoters = {a, b, c}
  Value = {x, y}
  Nil = Nil
  MaxTerm = 2
  MaxLog = 4
  MaxTimer = 3
  MaxAE = 3
  MaxClient = 1
  MaxCrash = 0
  MaxHalf = 0
  MaxCfg = 0
  MaxRead = 0
  MaxSnap = 1
  SnapSize = 1
  AsyncKinds = {}
  MaxNet = 0
  W = {"Env:SnapWindow"}
  MayTimeout = {a, b, c}
  MayLink = {}
  Gen = FALSE
SPECIFICATION Spec
SYMMETRY Symm
INVARIANTS ElectionSafety LogMatching NoViolation CommittedDurable SnapshotLabelExact TypeOK
CHECK_DEADLOCK FALSE
