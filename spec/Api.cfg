CONSTANTS MaxLen = 2
SPECIFICATION Spec
INVARIANT Emit
CHECK_DEADLOCK FALSE
