CONSTANTS
  MaxOps = 3
  MaxCrash = 2
  Sizes = {1, 3}
  W = {}
SPECIFICATION Spec
INVARIANTS Recover InMemoryIsReturned FileDenotesLog
CHECK_DEADLOCK FALSE
