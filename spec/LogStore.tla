------------------------------ MODULE LogStore ------------------------------
(***************************************************************************)
(* File-level model of the persistent log (log.go) with crashes (C12).     *)
(* The file is a sequence of records [4-byte length][body]; the first      *)
(* record is a placeholder carrying the compaction boundary.  Each record  *)
(* is written with two write(2) calls, a batch is followed by one fsync,   *)
(* and only then is the in-memory log updated.  Truncate is one ftruncate. *)
(* Compact and DiscardEntries write a temporary file and rename it over    *)
(* the log.  A crash may fall between any two system calls and inside a    *)
(* write, leaving any byte prefix.  NewLog removes temporary files, Replay *)
(* decodes records until the file ends.                                    *)
(*                                                                         *)
(* Property (StoreAbs): whatever the crash point, reopening succeeds and   *)
(* yields the log of the returned operations, optionally followed by a     *)
(* prefix of the entries of the interrupted append (or the result of the   *)
(* interrupted truncate/compact/discard), and the log keeps working.       *)
(* W = {"ReplayStrict"} is the behaviour before fix 2e937c2.               *)
(***************************************************************************)
EXTENDS StoreAbs, TLC

CONSTANTS MaxOps,     \* operations per behaviour (crashes and reopens not counted)
          MaxCrash,
          Sizes,      \* body sizes of entries, e.g. {1, 2}
          W

VARIABLES
  file,   \* sequence of records [e, hb, bb]: header bytes present (0..4), body bytes present (0..e.n)
  tmp,    \* <<>> = no temporary file, otherwise the sequence of records written to it so far
  mem,    \* [open |-> BOOLEAN, log |-> abstract log]  what the open Log object reports
  ret,    \* abstract log denoted by the operations that returned
  fl,     \* operation in flight ([op |-> "none"] when none)
  pc,     \* sub-step of the operation in flight
  budget, \* [ops, crash]
  failed  \* a reopen returned an error or recovered something that is not allowed
vars == <<file, tmp, mem, ret, fl, pc, budget, failed>>

None == [op |-> "none"]
Rec(e) == [e |-> e, hb |-> 4, bb |-> e.n]
Complete(r) == r.hb = 4 /\ r.bb = r.e.n
Placeholder(i, t) == [i |-> i, t |-> t, k |-> 9, n |-> 0]

\* the file a log denotes
FileOf(lg) == <<Rec(Placeholder(lg.base, lg.bterm))>> \o [j \in 1..Len(lg.ents) |-> Rec(lg.ents[j])]

Init ==
  /\ file = <<>> /\ tmp = <<>> /\ mem = [open |-> FALSE, log |-> EmptyLog]
  /\ ret = EmptyLog /\ fl = None /\ pc = 0
  /\ budget = [ops |-> MaxOps, crash |-> MaxCrash] /\ failed = FALSE

-----------------------------------------------------------------------------
(* NewLog + Open + Replay *)
CompletePrefix(f) ==
  LET S == {j \in 0..Len(f) : \A k \in 1..j : Complete(f[k])} IN
  SubSeq(f, 1, CHOOSE j \in S : \A k \in S : k <= j)

\* what the code before the fix does with the record after the complete prefix
StrictError(f) ==
  LET p == Len(CompletePrefix(f)) IN
  p < Len(f) /\ ~(f[p + 1].hb = 4 /\ f[p + 1].bb = 0 /\ f[p + 1].e.n > 0)     \* torn header or torn body: error
                                                                              \* (length only, no body byte: silently accepted)
LogOfFile(f) ==
  [base |-> f[1].e.i, bterm |-> f[1].e.t, ents |-> [j \in 1..(Len(f) - 1) |-> f[j + 1].e]]

Reopen ==
  /\ ~mem.open /\ fl.op \in {"none", "crashed"}
  /\ LET strict == "ReplayStrict" \in W
         good == CompletePrefix(file)
         \* strict: the dangling length stays in the file; repaired: the file is cut back
         f1 == IF strict THEN file ELSE good
         f2 == IF good = <<>> THEN (IF strict /\ file # <<>> THEN file ELSE <<Rec(Placeholder(0, 0))>>) ELSE f1
         lg == IF good = <<>> THEN EmptyLog ELSE LogOfFile(good)
         err == strict /\ StrictError(file)
         crashedOp == IF fl.op = "crashed" THEN fl.was ELSE None IN
     /\ tmp' = <<>>
     /\ file' = IF err THEN file ELSE f2
     /\ mem' = [open |-> ~err, log |-> lg]
     /\ failed' = (failed \/ err \/ lg \notin Allowed(ret, crashedOp))
     /\ ret' = IF lg \in Allowed(ret, crashedOp) THEN lg ELSE ret
     /\ fl' = None /\ pc' = 0
  /\ UNCHANGED budget

Close ==
  /\ mem.open /\ fl = None /\ budget.ops > 0
  /\ mem' = [mem EXCEPT !.open = FALSE]
  /\ budget' = [budget EXCEPT !.ops = budget.ops - 1]
  /\ UNCHANGED <<file, tmp, ret, fl, pc, failed>>

-----------------------------------------------------------------------------
(* Operations, one system call per step *)
Begin(op) ==
  /\ mem.open /\ fl = None /\ budget.ops > 0
  /\ fl' = op /\ pc' = 1
  /\ budget' = [budget EXCEPT !.ops = budget.ops - 1]
  /\ UNCHANGED <<file, tmp, mem, ret, failed>>

NextEntries == {<<[i |-> LastIdx(mem.log) + 1, t |-> t, k |-> 1, n |-> n]>> : t \in 1..2, n \in Sizes}
               \cup {<<[i |-> LastIdx(mem.log) + 1, t |-> 1, k |-> 1, n |-> n], [i |-> LastIdx(mem.log) + 2, t |-> 1, k |-> 0, n |-> m]>> : n, m \in Sizes}

BeginAppend == \E es \in NextEntries : Begin([op |-> "append", ents |-> es])
BeginTruncate == \E i \in (mem.log.base + 1)..LastIdx(mem.log) : Begin([op |-> "truncate", i |-> i])
BeginCompact == \E i \in (mem.log.base + 1)..LastIdx(mem.log) : Begin([op |-> "compact", i |-> i])
BeginDiscard == \E i \in {LastIdx(mem.log), LastIdx(mem.log) + 2} : Begin([op |-> "discard", i |-> i, t |-> 2])

\* the records an append writes: header then body of each entry; pc = 2j-1 writes header j, pc = 2j body j
StepAppend ==
  /\ fl.op = "append"
  /\ LET n == Len(fl.ents) IN
     IF pc <= 2 * n THEN
        LET j == (pc + 1) \div 2 IN
        /\ file' = IF pc % 2 = 1 THEN Append(file, [e |-> fl.ents[j], hb |-> 4, bb |-> 0])
                   ELSE [file EXCEPT ![Len(file)].bb = fl.ents[j].n]
        /\ pc' = pc + 1
        /\ UNCHANGED <<tmp, mem, ret, fl, budget, failed>>
     ELSE  \* fsync, then publish in memory and return
        /\ mem' = [mem EXCEPT !.log = ApplyOp(mem.log, fl)]
        /\ ret' = ApplyOp(ret, fl)
        /\ fl' = None /\ pc' = 0
        /\ UNCHANGED <<file, tmp, budget, failed>>

StepTruncate ==
  /\ fl.op = "truncate"
  /\ IF pc = 1 THEN
        /\ file' = SubSeq(file, 1, fl.i - mem.log.base)        \* ftruncate to the offset of entry i
        /\ pc' = 2
        /\ UNCHANGED <<tmp, mem, ret, fl, budget, failed>>
     ELSE
        /\ mem' = [mem EXCEPT !.log = ApplyOp(mem.log, fl)]
        /\ ret' = ApplyOp(ret, fl)
        /\ fl' = None /\ pc' = 0
        /\ UNCHANGED <<file, tmp, budget, failed>>

\* compact / discard: create tmp, write the new content record by record, rename, publish
NewContent == FileOf(ApplyOp(mem.log, fl))
StepRewrite ==
  /\ fl.op \in {"compact", "discard"}
  /\ LET target == NewContent IN
     IF pc = 1 THEN            \* temporary file created (empty)
        /\ tmp' = <<[e |-> Placeholder(0, 0), hb |-> 0, bb |-> 0]>> /\ pc' = 2
        /\ UNCHANGED <<file, mem, ret, fl, budget, failed>>
     ELSE IF pc - 1 <= Len(target) THEN   \* one record per step (its two writes are not distinguished: the
                                          \* temporary file is never read back)
        /\ tmp' = SubSeq(target, 1, pc - 1) /\ pc' = pc + 1
        /\ UNCHANGED <<file, mem, ret, fl, budget, failed>>
     ELSE IF tmp # <<>> THEN               \* rename over the log file
        /\ file' = target /\ tmp' = <<>> /\ pc' = pc
        /\ UNCHANGED <<mem, ret, fl, budget, failed>>
     ELSE
        /\ mem' = [mem EXCEPT !.log = ApplyOp(mem.log, fl)]
        /\ ret' = ApplyOp(ret, fl)
        /\ fl' = None /\ pc' = 0
        /\ UNCHANGED <<file, tmp, budget, failed>>

\* SIGKILL between two system calls ...
Crash ==
  /\ mem.open /\ budget.crash > 0
  /\ mem' = [mem EXCEPT !.open = FALSE]
  /\ fl' = IF fl = None THEN None ELSE [op |-> "crashed", was |-> fl]
  /\ pc' = 0
  /\ budget' = [budget EXCEPT !.crash = budget.crash - 1]
  /\ UNCHANGED <<file, tmp, ret, failed>>

\* ... or inside the write that is about to happen, leaving a proper byte prefix of it
CrashInWrite ==
  /\ mem.open /\ budget.crash > 0 /\ fl.op = "append" /\ pc <= 2 * Len(fl.ents)
  /\ LET j == (pc + 1) \div 2 IN
     \/ /\ pc % 2 = 1
        /\ \E h \in 1..3 : file' = Append(file, [e |-> fl.ents[j], hb |-> h, bb |-> 0])
     \/ /\ pc % 2 = 0 /\ fl.ents[j].n > 1
        /\ \E b \in 1..(fl.ents[j].n - 1) : file' = [file EXCEPT ![Len(file)].bb = b]
  /\ mem' = [mem EXCEPT !.open = FALSE]
  /\ fl' = [op |-> "crashed", was |-> fl]
  /\ pc' = 0
  /\ budget' = [budget EXCEPT !.crash = budget.crash - 1]
  /\ UNCHANGED <<tmp, ret, failed>>

\* the first Open of an empty directory writes the placeholder with the same two writes
CrashInFirstOpen ==
  /\ ~mem.open /\ file = <<>> /\ budget.crash > 0 /\ fl = None
  /\ \E h \in 1..4 : file' = <<[e |-> Placeholder(0, 0), hb |-> h, bb |-> 0]>>
  /\ budget' = [budget EXCEPT !.crash = budget.crash - 1]
  /\ UNCHANGED <<tmp, mem, ret, fl, pc, failed>>

Next ==
  \/ Reopen \/ Close \/ BeginAppend \/ BeginTruncate \/ BeginCompact \/ BeginDiscard
  \/ StepAppend \/ StepTruncate \/ StepRewrite \/ Crash \/ CrashInWrite \/ CrashInFirstOpen

Spec == Init /\ [][Next]_vars

-----------------------------------------------------------------------------
Recover == ~failed                                   \* C12, first sentence
InMemoryIsReturned == (mem.open /\ fl = None) => mem.log = ret      \* and the open log is the returned log
FileDenotesLog == (mem.open /\ fl = None) => file = FileOf(mem.log) \* "keeps working": no garbage left behind
=============================================================================
