CONSTANTS
  MaxOps = 5
  MaxCrash = 3
  Sizes = {1, 3}
  W = {}
SPECIFICATION Spec
INVARIANTS Recover InMemoryIsReturned FileDenotesLog
CHECK_DEADLOCK FALSE
