\* membership, deeper (thorough tier, time-boxed)
CONSTANTS
  Node = {a, b, c}
  InitVoters = {a, b}
  Value = {x, y}
  Nil = Nil
  MaxTerm = 2
  MaxLog = 4
  MaxTimer = 5
  MaxAE = 5
  MaxClient = 1
  MaxCrash = 1
  MaxHalf = 1
  MaxCfg = 3
  MaxRead = 0
  MaxSnap = 0
  SnapSize = 1
  AsyncKinds = {}
  MaxNet = 0
  W = {"Env:S5Free"}
  MayTimeout = {a, b, c}
  MayLink = {}
  Gen = FALSE
SPECIFICATION Spec
INVARIANTS ElectionSafety LogMatching NoViolation TypeOK
CHECK_DEADLOCK FALSE
