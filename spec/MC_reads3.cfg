\* linearizable reads: replication rounds and their replies are asynchronous (a reply may be
\* processed long after it was produced), elections are synchronous exchanges
CONSTANTS
  Node = {a, b, c}
  InitVoters = {a, b, c}
  Value = {x}
  Nil = Nil
  MaxTerm = 2
  MaxLog = 4
  MaxTimer = 3
  MaxAE = 2
  MaxClient = 1
  MaxCrash = 0
  MaxHalf = 0
  MaxCfg = 0
  MaxRead = 1
  MaxSnap = 0
  SnapSize = 1
  AsyncKinds = {"ae"}
  MaxNet = 4
  W = {}
  Gen = FALSE
SPECIFICATION Spec
SYMMETRY Symm
INVARIANTS ElectionSafety LogMatching NoViolation TypeOK
CHECK_DEADLOCK FALSE
