CONSTANTS
  Node = {a, b, c, d}
  InitVoters = {a, b}
  Value = {x, y}
  Nil = Nil
  MaxTerm = 3
  MaxLog = 9
  MaxTimer = 7
  MaxAE = 16
  MaxClient = 2
  MaxCrash = 1
  MaxHalf = 1
  MaxCfg = 4
  MaxRead = 0
  MaxSnap = 0
  SnapSize = 1
  AsyncKinds = {}
  MaxNet = 0
  W = {"Env:S5Free"}
  MayTimeout = {a, b, c, d}
  MayLink = {}
  Gen = TRUE
  OutDir = "OUTDIR"
SPECIFICATION GSpec
INVARIANTS Export ElectionSafety LogMatching NoViolation
CHECK_DEADLOCK FALSE
