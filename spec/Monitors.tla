------------------------------ MODULE Monitors ------------------------------
(***************************************************************************)
(* Property monitors: the verdict on executions recorded from the real     *)
(* code.  One event of the ndjson trace is consumed per step; every        *)
(* variable is updated deterministically from the logged fields, so the    *)
(* state graph is a single path.  Each clause below is a transcription of  *)
(* a clause of a property statement (C01..C18) over observable events      *)
(* only; nothing here depends on what Raft.tla predicts.                   *)
(*                                                                         *)
(* A violated clause adds a record to `bad'.  Batch runs print the record  *)
(* (MONITOR-BAD ...) and go on; single-scenario runs check the invariant   *)
(* Holds so that TLC produces the counterexample that goes into the        *)
(* replay file.                                                            *)
(***************************************************************************)
EXTENDS Integers, Sequences, FiniteSets, TLC, Json

CONSTANTS TraceFile,   \* ndjson file
          Props        \* set of property ids judged in this run, e.g. {"C01","C02"}

Trace == ndJsonDeserialize(TraceFile)

VARIABLES
  l,         \* next line
  meta,      \* the scenario line
  dur,       \* node -> [base, bterm, ents]  durable log as reconstructed from the storage wrapper events
  pstate,    \* node -> [term, vote]         last persisted term / vote
  maxterm,   \* node -> largest term the node was ever seen in
  votes,     \* set of <<node, term, candidate>>  real votes (persisted or answered), across crashes
  applied,   \* index -> [t, v]  first application anywhere
  cursor,    \* <<node, inc>> -> last index handed to that state machine instance since its last restore
  leaders,   \* term -> set of nodes with leadership evidence
  lfirst,    \* set of <<node, term>> whose leadership start was already judged
  committed, \* index -> entry [t,k,v]  first time it was reported committed anywhere
  cterm,     \* index -> term of the node that reported it committed first
  reqs,      \* rpc id -> the send event
  hpre,      \* rpc id -> [log, commit, term] of the destination at deliver time
  stat,      \* node -> last status event
  inv,       \* client op -> invoke event (plus line)
  wdone,     \* set of [op, index, val, line]   successful replicated submissions
  rdone,     \* set of [op, last, count, line, inv]  successful linearizable reads
  retd,      \* client ops that returned
  dead,      \* set of <<node, inc>> that crashed (their clients never hear back)
  mtrack,    \* membership call -> [node, idx, term, st] : the entry it appended and what became of it
  mwait,     \* node -> membership op invoked there whose entry has not been seen yet
  finals,    \* node -> `final' event of the heal phase
  healed,    \* the fault-free period has begun (deliveries are concurrent from here on)
  s5,        \* signature of known finding S5 occurred in this scenario (see KF_S5)
  hl,        \* healthy period in force: [on, leader, maj, term]
  fsmc,      \* <<node, inc>> -> largest operation index the state machine instance contains
  taken,     \* set of <<index, term, hash, size>> snapshots produced by a node's own takeSnapshot
  sopen,     \* node -> label index of the snapshot it last opened for reading
  isidx,     \* node -> label index carried by the InstallSnapshot request it is handling
  wlab,      \* node -> label of the snapshot file it is receiving (created by InstallSnapshot, not yet closed)
  lastae,    \* node -> the AppendEntries call it handled last while quiescent, until its next status
  s7,        \* set of nodes on which the signature of known finding S7 occurred
  vrep,      \* node -> time at which it was last handed a replication reply from a voter of its configuration
  rlast,     \* <<node, voter>> -> line of the last replication reply from that voter handed to the node
  rtime,     \* <<node, voter>> -> time of the last replication reply from that voter handed to the node
  pubmax,    \* <<node, inc>> -> largest label of a snapshot this incarnation has published (taken or installed)
  cfgv,      \* <<index, term>> -> voters of the configuration entry with that index and term
  inhand,    \* rpc id -> [to, inc, kind] : delivered to a handler that has not returned yet
  pgr,       \* <<node, send time, term>> -> voters whose prevote grants of that round were handed to the node
  bad        \* set of violation records

vars == <<l, meta, dur, pstate, maxterm, votes, applied, cursor, leaders, lfirst, committed, cterm,
          reqs, hpre, stat, inv, wdone, rdone, retd, dead, mtrack, mwait, finals, healed, s5, hl, fsmc, taken, sopen, isidx, wlab, lastae, s7, vrep, rlast, rtime, pubmax, cfgv, inhand, pgr, bad>>

-----------------------------------------------------------------------------
Ev == Trace[l]
Is(k) == Ev.ev = k
Has(f) == f \in DOMAIN Ev

Put(f, k, v) == [x \in (DOMAIN f) \cup {k} |-> IF x = k THEN v ELSE f[x]]
Del(f, k)    == [x \in (DOMAIN f) \ {k} |-> f[x]]
Get(f, k, d) == IF k \in DOMAIN f THEN f[k] ELSE d
Max(a, b) == IF a > b THEN a ELSE b
Min(a, b) == IF a < b THEN a ELSE b
Range(s) == {s[i] : i \in DOMAIN s}

E(e) == [i |-> e.i, t |-> e.t, k |-> e.k, v |-> e.v]          \* entry without decoration
Ents(es) == [j \in 1..Len(es) |-> E(es[j])]

EmptyLog == [base |-> 0, bterm |-> 0, ents |-> <<>>]
Log(n) == Get(dur, n, EmptyLog)
LastIdx(lg)  == lg.base + Len(lg.ents)
LastTerm(lg) == IF Len(lg.ents) = 0 THEN lg.bterm ELSE lg.ents[Len(lg.ents)].t
HasIdx(lg, i) == i > lg.base /\ i <= LastIdx(lg)
At(lg, i) == lg.ents[i - lg.base]
TermAt(lg, i) == IF i = lg.base THEN lg.bterm ELSE At(lg, i).t

Voters == Range(meta.voters)
Majority(S, V) == Cardinality(S \cap V) * 2 > Cardinality(V)

Manual == Has("m") /\ Ev.m = 1    \* delivered by the step scheduler: the node was quiescent

-----------------------------------------------------------------------------
(* Durable log reconstruction *)
LogAfter(lg) ==
  IF Has("err") THEN lg
  ELSE IF Is("log_append") THEN
        [lg EXCEPT !.ents = lg.ents \o Ents(Ev.entries)]
  ELSE IF Is("log_truncate") /\ ~HasIdx(lg, Ev.index) THEN lg
  ELSE IF Is("log_truncate") THEN
        [lg EXCEPT !.ents = SubSeq(lg.ents, 1, Ev.index - lg.base - 1)]
  ELSE IF Is("log_compact") /\ ~(Ev.index = lg.base \/ HasIdx(lg, Ev.index)) THEN lg   \* flagged by Recorder
  ELSE IF Is("log_compact") THEN
        [base |-> Ev.index, bterm |-> TermAt(lg, Ev.index),
         ents |-> SubSeq(lg.ents, Ev.index - lg.base + 1, Len(lg.ents))]
  ELSE IF Is("log_discard") THEN
        [base |-> Ev.index, bterm |-> Ev.term, ents |-> <<>>]
  ELSE lg

IsLogEv == Is("log_append") \/ Is("log_truncate") \/ Is("log_compact") \/ Is("log_discard")

\* appended entries must continue the log (index contiguity) -- a harness/recorder sanity check
AppendContiguous(lg) ==
  \A j \in 1..Len(Ev.entries) : Ev.entries[j].i = LastIdx(lg) + j

ReplayLog == [base |-> Ev.base,
              bterm |-> Log(Ev.node).bterm,    \* the interface does not expose the base term
              ents |-> Ents(Ev.entries)]

\* a node constructed over prepared storage (handler-domain scenarios): its first replay is
\* where the reconstruction starts
AdoptReplay == Is("log_replay") /\ ~Has("err") /\ Ev.node \notin DOMAIN dur
NextDur ==
  IF Is("scenario") THEN <<>>
  ELSE IF IsLogEv THEN Put(dur, Ev.node, LogAfter(Log(Ev.node)))
  ELSE IF AdoptReplay THEN Put(dur, Ev.node, [ReplayLog EXCEPT !.bterm = IF Len(Ev.entries) = 0 /\ Has("lastt") THEN Ev.lastt ELSE 0])
  ELSE dur

-----------------------------------------------------------------------------
(* Violation records *)
V(p, c, d) == [p |-> p, c |-> c, line |-> l, sc |-> Ev.sc, d |-> ToString(d), kf |-> ""]
\* the same, tagged with the id of a known finding whose signature this violation matches
VK(p, c, d, kf) == [p |-> p, c |-> c, line |-> l, sc |-> Ev.sc, d |-> ToString(d), kf |-> kf]

-----------------------------------------------------------------------------
(* C01 -- state machine safety *)
Inst == <<Ev.node, Ev.inc>>
C01_Apply ==
  IF ~Is("apply") THEN {} ELSE
    LET rec == [t |-> Ev.term, v |-> Ev.val] IN
    (IF Ev.index \in DOMAIN applied /\ applied[Ev.index] # rec
       THEN {V("C01", "SMSafety", <<Ev.index, applied[Ev.index], rec>>)} ELSE {})
    \cup
    (IF Inst \in DOMAIN cursor /\ Ev.index <= cursor[Inst]
       THEN {V("C01", "ApplyOrder", <<Ev.index, cursor[Inst]>>)} ELSE {})

NextApplied ==
  IF Is("scenario") THEN <<>>
  ELSE IF Is("apply") /\ Ev.index \notin DOMAIN applied
         THEN Put(applied, Ev.index, [t |-> Ev.term, v |-> Ev.val])
  ELSE applied

NextCursor ==
  IF Is("scenario") THEN <<>>
  ELSE IF Is("apply") THEN Put(cursor, Inst, Ev.index)
  ELSE IF Is("restore") THEN Put(cursor, Inst, 0)
  ELSE cursor

-----------------------------------------------------------------------------
(* C02 -- election safety.  Leadership evidence for (n, t). *)
OwnNoop == Is("log_append") /\ ~Has("err") /\ Ev.ctx = "" /\ Len(Ev.entries) = 1 /\ Ev.entries[1].k = 0
LeadEv ==
  IF Is("status") /\ Ev.role = 0 THEN <<Ev.node, Ev.term>>
  ELSE IF Is("send") /\ Ev.kind \in {"ae", "is"} /\ ~Has("dupof") THEN <<Ev.leader, Ev.term>>
  ELSE IF OwnNoop THEN <<Ev.node, Ev.entries[1].t>>
  ELSE <<>>

NextLeaders ==
  IF Is("scenario") THEN <<>>
  ELSE IF LeadEv # <<>> THEN Put(leaders, LeadEv[2], Get(leaders, LeadEv[2], {}) \cup {LeadEv[1]})
  ELSE leaders

C02_Election ==
  IF LeadEv = <<>> THEN {} ELSE
    LET others == Get(leaders, LeadEv[2], {}) \ {LeadEv[1]} IN
    IF others # {} THEN {V("C02", "ElectionSafety", <<LeadEv[2], LeadEv[1], others>>)} ELSE {}

-----------------------------------------------------------------------------
(* C07 -- leader completeness.  committed: first report of commitment. *)
CommitReport ==   \* set of <<index, entry>> newly reported committed by this event
  IF Is("status") THEN
     LET lg == Log(Ev.node) IN
     {<<i, At(lg, i)>> : i \in {j \in (lg.base + 1)..Min(Ev.commit, LastIdx(lg)) : j \notin DOMAIN committed}}
  ELSE {}

NextCommitted ==
  IF Is("scenario") THEN <<>>
  ELSE IF CommitReport # {} THEN
     [i \in DOMAIN committed \cup {p[1] : p \in CommitReport} |->
        IF i \in DOMAIN committed THEN committed[i] ELSE (CHOOSE p \in CommitReport : p[1] = i)[2]]
  ELSE committed

\* a node reports as committed something that differs from what was reported committed before
\* (not a clause of C07 as stated: reported as a warning only)
C07_CommitAgree ==
  IF ~Is("status") THEN {} ELSE
    LET lg == Log(Ev.node)
        diff == {i \in DOMAIN committed : i <= Ev.commit /\ HasIdx(lg, i) /\ At(lg, i) # committed[i]} IN
    IF diff # {} THEN {V("W", "CommittedDiverge", <<Ev.node, diff>>)} ELSE {}

NewLeader == LeadEv # <<>> /\ LeadEv \notin lfirst
NextLfirst == IF Is("scenario") THEN {} ELSE IF NewLeader THEN lfirst \cup {LeadEv} ELSE lfirst

\* judged at the node's own no-op append (the linearisation point of becomeLeader) or at a
\* quiescent status report; a `send' event is emitted outside the node's lock and may be late
C07_Completeness ==
  IF ~NewLeader \/ Is("send") THEN {} ELSE
    LET n == LeadEv[1]
        lg == Log(n)     \* for the node's own no-op: the log before this event's append
        \* entries committed in an EARLIER term (a node may still win an old term after a newer
        \* leader has committed - its last vote was cast before the voter moved on; C07's "later"
        \* is read as "of a later term", as in Raft's Leader Completeness: DESIGN.md 12.15)
        missing == {i \in DOMAIN committed : Get(cterm, i, 0) < LeadEv[2] /\ i > lg.base /\ (~HasIdx(lg, i) \/ At(lg, i) # committed[i])} IN
    IF missing # {} THEN {V("C07", "LeaderCompleteness", <<n, LeadEv[2], missing>>)} ELSE {}

\* nobody ever removes an entry that was reported committed (leader "never overwrites it";
\* C06 "never removes a committed entry")
C07_NoOverwrite ==
  IF ~Is("log_truncate") \/ Has("err") THEN {} ELSE
    LET lg == Log(Ev.node)
        gone == {i \in DOMAIN committed : i >= Ev.index /\ HasIdx(lg, i) /\ At(lg, i) = committed[i]} IN
    IF gone # {} THEN {V("C07", "CommittedTruncated", <<Ev.node, Ev.index, gone>>)} ELSE {}

-----------------------------------------------------------------------------
(* C06 -- log matching over the durable logs, after every log change *)
Matching(a, b) ==
  LET lo == Max(a.base, b.base) + 1
      hi == Min(LastIdx(a), LastIdx(b)) IN
  \* linear form, equivalent by induction on i: equal terms at i imply equal entries at i and
  \* equal terms at i - 1
  \A i \in lo..hi : At(a, i).t = At(b, i).t => At(a, i) = At(b, i) /\ (i > lo => At(a, i - 1).t = At(b, i - 1).t)

C06_LogMatching ==
  IF ~IsLogEv \/ Has("err") THEN {} ELSE
    LET lg == LogAfter(Log(Ev.node))
        offenders == {m \in DOMAIN dur \ {Ev.node} : ~Matching(lg, dur[m])} IN
    IF offenders # {} THEN {V("C06", "LogMatching", <<Ev.node, offenders>>)} ELSE {}

\* AppendEntries handled while the destination was otherwise quiescent: relation between the
\* log before and after, as the property states it.
AEReq == reqs[Ev.id]
C06_Handler ==
  IF ~(Is("handled") /\ Ev.kind = "ae" /\ ~Has("err") /\ Ev.id \in DOMAIN hpre /\ Ev.id \in DOMAIN reqs
       /\ hpre[Ev.id].manual) THEN {} ELSE
    LET pre == hpre[Ev.id].log
        post == Log(Ev.to)
        q == AEReq
        n == Len(q.entries)
        keptPrefix == \A i \in (Max(pre.base, post.base) + 1)..Min(hpre[Ev.id].commit, LastIdx(pre)) :
                          HasIdx(post, i) /\ At(post, i) = At(pre, i)
    IN
    (IF ~Ev.ok /\ post # pre THEN {V("C06", "RejectChangedLog", <<Ev.id>>)} ELSE {})
    \cup
    (IF Ev.ok /\ ~(\A j \in 1..n : HasIdx(post, q.entries[j].i) /\ At(post, q.entries[j].i) = E(q.entries[j]))
       THEN {V("C06", "SuccessButDisagrees", <<Ev.id>>)} ELSE {})
    \cup
    (IF Ev.ok /\ post.base = pre.base /\
        ~(\A i \in (pre.base + 1)..LastIdx(pre) :
             \* an entry may disappear only at or after a position where the request conflicts
             (HasIdx(post, i) /\ At(post, i) = At(pre, i))
             \/ (\E j \in 1..n : q.entries[j].i <= i /\ HasIdx(pre, q.entries[j].i)
                                  /\ At(pre, q.entries[j].i).t # q.entries[j].t))
       THEN {V("C06", "RemovedNonConflicting", <<Ev.id>>)} ELSE {})
    \cup
    (IF ~keptPrefix THEN {V("C06", "RemovedCommitted", <<Ev.id>>)} ELSE {})

\* ... and never moves the commit index backwards or past entries verified to match the sender:
\* judged at the node's next (quiescent) status report after a call handled while quiescent
ManualAE == Is("handled") /\ Ev.kind = "ae" /\ ~Has("err") /\ Ev.id \in DOMAIN hpre /\ Ev.id \in DOMAIN reqs /\ hpre[Ev.id].manual
NextLastae ==
  IF Is("scenario") THEN <<>>
  ELSE IF ManualAE THEN Put(lastae, Ev.to, [id |-> Ev.id, ok |-> Ev.ok, pre |-> hpre[Ev.id].commit, inc |-> Ev.inc, term |-> Ev.rterm,
                                           top |-> AEReq.prev + Len(AEReq.entries), lc |-> AEReq.commit])
  ELSE IF (Is("status") \/ Is("crash") \/ Is("restart") \/ Is("stop")) /\ Ev.node \in DOMAIN lastae THEN Del(lastae, Ev.node)
  ELSE IF Is("deliver") /\ Ev.to \in DOMAIN lastae THEN Del(lastae, Ev.to)      \* another call intervened
  ELSE lastae

C06_Commit ==
  \* (same term: a node that campaigned, led, committed and stepped down again - removed by the
  \* configuration it committed - between two status reports is in a higher term than its answer was)
  IF ~(Is("status") /\ Ev.node \in DOMAIN lastae /\ lastae[Ev.node].inc = Ev.inc /\ Ev.role = 1 /\ Ev.term = lastae[Ev.node].term) THEN {} ELSE
    LET a == lastae[Ev.node]
        bound == IF a.ok THEN Max(a.pre, Min(a.lc, a.top)) ELSE a.pre IN
    (IF Ev.commit < a.pre THEN {V("C06", "CommitMovedBackwards", <<a.id, a.pre, Ev.commit>>)} ELSE {})
    \cup
    (IF Ev.commit > bound THEN {V("C06", "CommitPastVerifiedEntries", <<a.id, a.ok, a.pre, a.lc, a.top, Ev.commit>>)} ELSE {})

-----------------------------------------------------------------------------
(* C08 -- term and vote monotone and durable *)
NextPstate ==
  IF Is("scenario") THEN <<>>
  ELSE IF Is("set_state") /\ ~Has("err") THEN Put(pstate, Ev.node, [term |-> Ev.term, vote |-> Ev.vote])
  ELSE IF Is("prepared") THEN Put(pstate, Ev.node, [term |-> Ev.term, vote |-> Ev.vote])    \* handler-domain scenarios
  ELSE pstate

ObservedTerm ==    \* <<node, term>> or <<>>
  IF Is("set_state") /\ ~Has("err") THEN <<Ev.node, Ev.term>>
  ELSE IF Is("status") THEN <<Ev.node, Ev.term>>
  ELSE IF Is("state_load") /\ ~Has("err") THEN <<Ev.node, Ev.term>>
  ELSE <<>>

NextMaxterm ==
  IF Is("scenario") THEN <<>>
  ELSE IF ObservedTerm # <<>> THEN Put(maxterm, ObservedTerm[1], Max(Get(maxterm, ObservedTerm[1], 0), ObservedTerm[2]))
  ELSE maxterm

C08_TermMonotone ==
  (IF ObservedTerm # <<>> /\ ObservedTerm[2] < Get(maxterm, ObservedTerm[1], 0)
     THEN {V("C08", "TermDecreased", <<ObservedTerm, maxterm[ObservedTerm[1]]>>)} ELSE {})
  \cup
  \* a reply never carries a term below what the node had reached when the request arrived
  (IF Is("handled") /\ ~Has("err") /\ Ev.id \in DOMAIN hpre /\ Ev.rterm < hpre[Ev.id].term
     THEN {V("C08", "ReplyTermBelowNodeTerm", <<Ev.id, Ev.rterm, hpre[Ev.id].term>>)} ELSE {})

\* real votes: answered (reply says granted, not a prevote) or persisted (non-empty vote written)
VoteEv ==
  IF Is("handled") /\ Ev.kind = "rv" /\ ~Has("err") /\ Ev.ok /\ Ev.id \in DOMAIN reqs /\ ~reqs[Ev.id].pre
     THEN <<Ev.to, reqs[Ev.id].term, reqs[Ev.id].cand>>
  ELSE IF Is("set_state") /\ ~Has("err") /\ Ev.vote # "" THEN <<Ev.node, Ev.term, Ev.vote>>
  ELSE <<>>

NextVotes == IF Is("scenario") THEN {} ELSE IF VoteEv # <<>> THEN votes \cup {VoteEv} ELSE votes

C08_OneVote ==
  IF VoteEv = <<>> THEN {} ELSE
    LET other == {w \in votes : w[1] = VoteEv[1] /\ w[2] = VoteEv[2] /\ w[3] # VoteEv[3]} IN
    IF other # {} THEN {V("C08", "TwoVotesInTerm", <<VoteEv, other>>)} ELSE {}

C08_VoteUpToDate ==
  \* judged only when the voter was otherwise quiescent (step scheduler): under concurrent
  \* deliveries the order of the `handled' event and the voter's log events is not the
  \* order in which the voter's critical sections ran
  IF ~(Is("handled") /\ Ev.kind = "rv" /\ ~Has("err") /\ Ev.ok /\ Ev.id \in DOMAIN reqs /\ ~reqs[Ev.id].pre
       /\ Ev.id \in DOMAIN hpre /\ hpre[Ev.id].manual) THEN {} ELSE
    LET q == reqs[Ev.id]  lg == Log(Ev.to) IN
    IF q.lastt < LastTerm(lg) \/ (q.lastt = LastTerm(lg) /\ q.last < LastIdx(lg))
      THEN {V("C08", "VoteForStaleLog", <<Ev.id, q.last, q.lastt, LastIdx(lg), LastTerm(lg)>>)} ELSE {}

\* a prevote never changes the voter's term or vote (judged when the voter was quiescent)
C08_PrevoteInert ==
  IF ~(Is("handled") /\ Ev.kind = "rv" /\ ~Has("err") /\ Ev.id \in DOMAIN reqs /\ reqs[Ev.id].pre
       /\ Ev.id \in DOMAIN hpre /\ hpre[Ev.id].manual) THEN {} ELSE
    IF Get(pstate, Ev.to, [term |-> 0, vote |-> ""]) # hpre[Ev.id].ps
      THEN {V("C08", "PrevoteChangedState", <<Ev.id, hpre[Ev.id].ps, pstate[Ev.to]>>)} ELSE {}

\* restart: the loaded term/vote is what was last persisted
C08_Reload ==
  IF ~(Is("state_load") /\ ~Has("err")) THEN {} ELSE
    LET ps == Get(pstate, Ev.node, [term |-> 0, vote |-> ""]) IN
    IF ps # [term |-> Ev.term, vote |-> Ev.vote] THEN {V("C08", "ReloadDiffers", <<Ev.node, ps, Ev.term, Ev.vote>>)} ELSE {}

-----------------------------------------------------------------------------
(* bookkeeping for requests and handler pre-states *)
NextReqs ==
  IF Is("scenario") THEN <<>>
  ELSE IF Is("send") THEN Put(reqs, Ev.id, Ev)
  ELSE IF (Is("reply") \/ Is("drop")) /\ Ev.id \in DOMAIN reqs THEN Del(reqs, Ev.id)
  ELSE reqs

NextHpre ==
  IF Is("scenario") THEN <<>>
  ELSE IF Is("deliver") THEN
     Put(hpre, Ev.id, [log |-> Log(Ev.to), commit |-> Get(stat, Ev.to, [commit |-> 0]).commit,
                       term |-> Get(maxterm, Ev.to, 0), ps |-> Get(pstate, Ev.to, [term |-> 0, vote |-> ""]),
                       manual |-> Manual])
  ELSE IF Is("handled") /\ Ev.id \in DOMAIN hpre THEN Del(hpre, Ev.id)
  ELSE hpre

NextStat ==
  IF Is("scenario") THEN <<>>
  ELSE IF Is("status") THEN Put(stat, Ev.node, Ev)
  ELSE IF Is("restart") \/ Is("crash") THEN Del(stat, Ev.node)
  ELSE stat

-----------------------------------------------------------------------------
(* C03 / C04 / C05 -- client-visible history *)
NextInv ==
  IF Is("scenario") THEN <<>>
  ELSE IF Is("invoke") THEN Put(inv, Ev.op, [e |-> Ev, line |-> l])
  ELSE inv

OkWrite == Is("return") /\ Ev.call = "submit" /\ Ev.kind = 0 /\ Ev.res = "ok"
OkRead  == Is("return") /\ Ev.call = "submit" /\ Ev.kind = 1 /\ Ev.res = "ok"

NextWdone ==
  IF Is("scenario") THEN {}
  ELSE IF OkWrite THEN wdone \cup {[op |-> Ev.op, index |-> Ev.index, val |-> Ev.val, line |-> l]}
  ELSE wdone

NextRdone ==
  IF Is("scenario") THEN {}
  ELSE IF OkRead THEN rdone \cup {[op |-> Ev.op, last |-> Ev.last, count |-> Ev.count, line |-> l, inv |-> inv[Ev.op].line]}
  ELSE rdone

OpsUpTo(i) == {j \in DOMAIN applied : j <= i}

C03_FutureTruth ==
  IF ~OkWrite THEN {} ELSE
    (IF Ev.rval # Ev.val THEN {V("C03", "FutureWrongBytes", <<Ev.op, Ev.val, Ev.rval>>)} ELSE {})
    \cup
    (IF ~(Ev.index \in DOMAIN applied /\ applied[Ev.index] = [t |-> Ev.term, v |-> Ev.val])
       THEN {V("C03", "FutureWrongPosition", <<Ev.op, Ev.index, Ev.term, Get(applied, Ev.index, <<>>)>>)} ELSE {})
    \cup
    (IF Ev.index \in DOMAIN applied /\ ~(Ev.last = Ev.index /\ Ev.count = Cardinality(OpsUpTo(Ev.index)))
       THEN {V("C03", "FutureWrongResult", <<Ev.op, Ev.index, Ev.count, Ev.last>>)} ELSE {})

FirstApply == Is("apply") /\ Ev.index \notin DOMAIN applied

C03_AtMostOnce ==
  IF ~FirstApply THEN {} ELSE
    LET dup == {j \in DOMAIN applied : applied[j].v = Ev.val} IN
    IF dup # {} THEN {V("C03", "AppliedTwice", <<Ev.val, Ev.index, dup>>)} ELSE {}

\* an operation never lands before one that completed before it was invoked
InvLineOfVal(v) ==
  LET c == {o \in DOMAIN inv : inv[o].e.call = "submit" /\ inv[o].e.kind = 0 /\ inv[o].e.val = v} IN
  IF c = {} THEN 0 ELSE inv[CHOOSE o \in c : TRUE].line

C03_RealTime ==
  IF ~FirstApply THEN {} ELSE
    LET il == InvLineOfVal(Ev.val)
        late == {w \in wdone : il > 0 /\ w.line < il /\ w.index >= Ev.index} IN
    IF late # {} THEN {V("C03", "RealTimeOrder", <<Ev.val, Ev.index, late>>)} ELSE {}

\* applied operations were submitted by somebody, with these bytes
C03_NoInvention ==
  IF ~FirstApply THEN {} ELSE
    IF InvLineOfVal(Ev.val) = 0 THEN {V("C03", "AppliedNeverSubmitted", <<Ev.val, Ev.index>>)} ELSE {}

(* C04 *)
\* on disk as a log entry, or covered by the node's snapshot (whose content C10 judges)
OnDisk(n, i, t, v) == LET lg == Log(n) IN (HasIdx(lg, i) /\ At(lg, i).t = t /\ At(lg, i).v = v) \/ i <= lg.base
C04_AckDurable ==
  IF meta.family = "member" THEN {} ELSE     \* static membership only (C09 covers the rest)
  IF FirstApply THEN
     LET holders == {n \in Voters : OnDisk(n, Ev.index, Ev.term, Ev.val)} IN
     IF ~Majority(holders, Voters) THEN {V("C04", "AppliedNotOnMajorityDisk", <<Ev.index, holders>>)} ELSE {}
  ELSE IF OkWrite THEN
     LET holders == {n \in Voters : OnDisk(n, Ev.index, Ev.term, Ev.val)} IN
     IF ~Majority(holders, Voters) THEN {V("C04", "AckNotOnMajorityDisk", <<Ev.op, Ev.index, holders>>)} ELSE {}
  ELSE {}

\* the log a restarted node replays is the reconstruction (otherwise C12/C14 or the recorder is off)
C04_Replay ==
  IF ~(Is("log_replay") /\ ~Has("err") /\ Ev.node \in DOMAIN dur) THEN {} ELSE
    LET lg == Log(Ev.node) IN
    IF lg.base # Ev.base \/ lg.ents # Ents(Ev.entries)
      \* what the node really has on disk is not what its acknowledged storage calls denote: the
      \* premise of C04's majority clause and a failure of C14 (and of C12, which finds the cause)
      THEN {V("C14", "ReplayedLogDiffers", <<Ev.node, lg.base, Len(lg.ents), Ev.base, Len(Ev.entries)>>),
            V("C04", "DiskDiffersFromAcknowledgedLog", <<Ev.node, lg.base, Len(lg.ents), Ev.base, Len(Ev.entries)>>)} ELSE {}

(* C05 *)
C05_Reads ==
  IF ~OkRead THEN {} ELSE
    LET il == inv[Ev.op].line
        stale == {w \in wdone : w.line < il /\ w.index > Ev.last}
        back  == {r \in rdone : r.line < il /\ (r.last > Ev.last \/ r.count > Ev.count)} IN
    (IF stale # {} THEN {V("C05", "StaleRead", <<Ev.op, Ev.last, stale>>)} ELSE {})
    \cup
    (IF back # {} THEN {V("C05", "ReadWentBackwards", <<Ev.op, Ev.last, back>>)} ELSE {})
    \cup
    \* C05 holds for EVERY schedule and assumes nothing about time.  A node that answers a read
    \* without having heard, between invocation and answer, from voters that together with itself
    \* form a majority cannot tell this execution from one in which the other majority has elected a
    \* leader and acknowledged a write meanwhile - in that execution the same answer is stale.  So
    \* the universally quantified property implies this per-execution condition (static membership).
    (LET n == Ev.node
         heard == {v \in Voters \ {n} : Get(rlast, <<n, v>>, 0) > il} IN
     IF meta.family # "member" /\ n \in Voters /\ Cardinality(Voters) > 1
          /\ (Cardinality(heard) + 1) * 2 <= Cardinality(Voters)
       THEN {V("C05", "ReadServedWithoutVoterMajority", <<Ev.op, n, heard, Voters>>)} ELSE {})

(* C17 -- lease reads under the timing assumption (the harness bounds every message delay by  *)
(* election timeout - lease duration and there is one clock): same freshness clauses          *)
OkLease == Is("return") /\ Ev.call = "submit" /\ Ev.kind = 2 /\ Ev.res = "ok"
C17_Lease ==
  IF ~(OkLease /\ meta.family = "lease") THEN {} ELSE
    LET il == inv[Ev.op].line
        stale == {w \in wdone : w.line < il /\ w.index > Ev.last} IN
    IF stale # {} THEN {V("C17", "StaleLeaseRead", <<Ev.op, Ev.node, Ev.last, stale>>)} ELSE {}

\* ... and a leader whose lease has lapsed, or that only non-voters answer, does not return data:
\* a lease is renewed when a reply completes a round's quorum, so a read served at or after its
\* invocation needs some voter's reply handed to the node less than a lease duration before that
\* (a necessary condition; judged for configurations with more than one voter)
NextVrep ==
  IF Is("scenario") THEN <<>>
  ELSE IF Is("reply") /\ Ev.kind \in {"ae", "is"} /\ Ev.to \in Voters THEN Put(vrep, Ev.from, Ev.t)
  ELSE IF (Is("restart") \/ Is("crash")) /\ Ev.node \in DOMAIN vrep THEN Del(vrep, Ev.node)
  ELSE vrep
\* C16 (mechanism: only a prevote quorum leads to a real candidacy).  A node that raises its term
\* and votes for itself has, in ONE round of prevote requests for that term (requests of a round
\* leave at the same instant), been handed grants of voters that form a majority together with
\* itself.  A node that campaigns without them cannot know that the others are not a healthy
\* leader with its majority - which it then deposes when it rejoins: the property over all
\* isolation and rejoin schedules implies this condition on every execution (static membership).
NextPgr ==
  IF Is("scenario") THEN <<>>
  ELSE IF Is("reply") /\ Ev.kind = "rv" /\ Ev.ok /\ Ev.id \in DOMAIN reqs /\ reqs[Ev.id].pre
    THEN LET key == <<Ev.from, reqs[Ev.id].t, reqs[Ev.id].term>> IN Put(pgr, key, Get(pgr, key, {}) \cup {Ev.to})
  ELSE pgr
C16_PrevoteMajority ==
  IF ~(Is("set_state") /\ ~Has("err") /\ Ev.vote = Ev.node /\ Ev.node \in DOMAIN pstate /\ Ev.term > pstate[Ev.node].term
       /\ meta.family \notin {"member", "hrv", "hae", "api"} /\ Ev.node \in Voters /\ Cardinality(Voters) > 1) THEN {} ELSE
    LET n == Ev.node
        rounds == {k \in DOMAIN pgr : k[1] = n /\ k[3] = Ev.term /\ Majority(pgr[k] \cup {n}, Voters)} IN
    IF rounds = {} THEN {V("C16", "CandidateWithoutPrevoteMajority", <<n, Ev.term, [k \in {x \in DOMAIN pgr : x[1] = n /\ x[3] = Ev.term} |-> pgr[k]]>>)} ELSE {}

NextRlast ==
  IF Is("scenario") THEN <<>>
  ELSE IF Is("reply") /\ Ev.kind \in {"ae", "is"} THEN Put(rlast, <<Ev.from, Ev.to>>, l)
  ELSE rlast
C17_Refusal ==
  \* (the lease family never changes the set of voters: they are the scenario's initial voters)
  IF ~(OkLease /\ meta.family = "lease" /\ "lease_us" \in DOMAIN meta) THEN {} ELSE
    LET n == Ev.node
        ti == inv[Ev.op].e.t
        last == Get(vrep, n, -1) IN
    (IF Cardinality(Voters) > 1 /\ (last = -1 \/ last + meta.lease_us <= ti)
      THEN {V("C17", "LeaseReadWithoutRecentVoterReply", <<Ev.op, n, last, ti>>)} ELSE {})
    \cup
    \* ... and by a MAJORITY: the round that renewed the lease was answered by voters that form a
    \* majority with the node; under the assumption (every message takes less than election timeout
    \* minus lease duration) all its answers, and the read's invocation, lie within two election
    \* timeouts of each other
    (LET heard == {v \in Voters \ {n} : Get(rtime, <<n, v>>, -1) # -1 /\ Get(rtime, <<n, v>>, -1) + 2 * meta.et_us > ti} IN
     IF "et_us" \in DOMAIN meta /\ n \in Voters /\ Cardinality(Voters) > 1 /\ (Cardinality(heard) + 1) * 2 <= Cardinality(Voters)
       THEN {V("C17", "LeaseReadWithoutRecentVoterMajority", <<Ev.op, n, heard, ti>>)} ELSE {})

-----------------------------------------------------------------------------
(* C14 / C18 -- aborts, panics, failed restarts *)
\* ... and the restarted node catches up with the leader (judged in the fault-free period of
\* scenarios in which a node was crashed at a storage-operation boundary)
C14_CatchUp ==
  IF Is("heal_done") /\ Ev.conv = "no" /\ dead # {} /\ meta.family = "crashpoint"
    THEN {V("C14", "RestartedNodeDidNotCatchUp", <<dead, [n \in DOMAIN finals |-> <<finals[n].running, finals[n].role, finals[n].commit, finals[n].applied>>]>>)}
    ELSE {}

C14_Abort ==
  (IF Is("abort") THEN {V("C14", "Abort", <<Ev.why>>)} ELSE {})
  \cup (IF Is("restart_fail") THEN {V("C14", "RestartFailed", <<Ev.node, Ev.err>>)} ELSE {})
  \cup (IF Is("new_fail") THEN {V("C14", "ConstructFailed", <<Ev.node, Ev.err>>)} ELSE {})
  \cup (IF Is("log_replay") /\ Has("err") THEN {V("C14", "ReplayFailed", <<Ev.node, Ev.err>>)} ELSE {})
C18_Panic ==
  (IF Is("panic") THEN {V("C18", "Panic", <<Ev.msg>>)} ELSE {})
  \* the exported RPC handlers are calls like any other: one that was entered on a node that kept
  \* running has returned by the end of the fault-free period (dozens of election timeouts later)
  \cup (IF Is("heal_done") /\ {i \in DOMAIN inhand : <<inhand[i].to, inhand[i].inc>> \notin dead} # {}
         THEN {V("C18", "HandlerNeverReturned", <<[i \in {j \in DOMAIN inhand : <<inhand[j].to, inhand[j].inc>> \notin dead} |-> inhand[i]]>>)} ELSE {})
  \* a node on which Stop has returned stays stopped until it is started again (4 = Shutdown)
  \cup (IF Is("stopcheck") /\ Ev.state # 4 THEN {V("C18", "StoppedNodeNotShutdown", <<Ev.node, Ev.state>>)} ELSE {})
  \cup (IF Is("abort") THEN {V("C18", "Abort", <<Ev.why>>)} ELSE {})


-----------------------------------------------------------------------------
(* C15 -- after the faults stop.  The harness runs the fault-free period (all members    *)
(* restarted, prompt reliable network, free timers) and reports whether one leader        *)
(* existed, a fresh operation completed and every running member of the leader's          *)
(* configuration held the leader's applied sequence within B, within 4B, or not at all.   *)
C15_Converge ==
  IF ~Is("heal_done") THEN {} ELSE
    IF Ev.conv = "no"
      THEN {V("C15", "NotConvergedWithin4B",
              <<[n \in DOMAIN finals |-> <<finals[n].running, finals[n].role, finals[n].term, finals[n].commit,
                                           finals[n].applied, Len(finals[n].content)>>]>>)}
      ELSE {}

-----------------------------------------------------------------------------
(* C18 -- API totality: futures resolve by their time-out; nothing stays unresolved;      *)
(* a membership change that commits while its submitter is still leader succeeds.         *)
IsMemberCall(e) == e.call \in {"add", "remove"}

\* bind a membership call to the configuration entry its node appends right after the call
NextMwait ==
  IF Is("scenario") THEN <<>>
  ELSE IF Is("invoke") /\ IsMemberCall(Ev) THEN Put(mwait, Ev.node, Ev.op)
  ELSE IF Is("log_append") /\ ~Has("err") /\ Ev.node \in DOMAIN mwait THEN Del(mwait, Ev.node)
  ELSE IF Is("return") /\ IsMemberCall(Ev) /\ Ev.node \in DOMAIN mwait /\ mwait[Ev.node] = Ev.op THEN Del(mwait, Ev.node)
  ELSE mwait

MemberBind == Is("log_append") /\ ~Has("err") /\ Ev.node \in DOMAIN mwait /\ Ev.ctx = "" /\ Len(Ev.entries) = 1 /\ Ev.entries[1].k = 2

\* the submitter is seen in another role or term before its entry commits -> no obligation
\* (a node that is still in the term in which it appended the entry as leader and whose commit
\* index covers the entry committed it itself: there is no other leader in that term, and a node
\* that is no longer leader advances its commit index only on a leader's word.  So the role at
\* the report does not matter - a leader that removed itself has stepped down by then.)
MemberCommitted(m) == Is("status") /\ Ev.node = m.node /\ m.st = "bound" /\ Ev.term = m.term
                      /\ Ev.commit >= m.idx /\ Ev.applied >= m.idx
MemberBroken(m) == Is("status") /\ Ev.node = m.node /\ m.st = "bound" /\ (Ev.role # 0 \/ Ev.term # m.term) /\ ~MemberCommitted(m)
\* the future failed with "not leader" before the next report of its node: judged at that report
MemberFailedNL(m) == Is("status") /\ Ev.node = m.node /\ m.st = "failed_nl"

NextMtrack ==
  IF Is("scenario") THEN <<>>
  ELSE IF MemberBind THEN Put(mtrack, mwait[Ev.node], [node |-> Ev.node, idx |-> Ev.entries[1].i, term |-> Ev.entries[1].t, st |-> "bound"])
  ELSE IF Is("status") \/ Is("crash") \/ Is("stop") THEN
     [o \in DOMAIN mtrack |->
        IF (Is("crash") \/ Is("stop")) /\ Ev.node = mtrack[o].node /\ mtrack[o].st = "bound" THEN [mtrack[o] EXCEPT !.st = "broken"]
        ELSE IF Is("status") /\ MemberBroken(mtrack[o]) THEN [mtrack[o] EXCEPT !.st = "broken"]
        ELSE IF MemberFailedNL(mtrack[o]) THEN [mtrack[o] EXCEPT !.st = "broken"]
        ELSE IF Is("status") /\ MemberCommitted(mtrack[o]) THEN [mtrack[o] EXCEPT !.st = "committed"]
        ELSE mtrack[o]]
  ELSE IF Is("return") /\ IsMemberCall(Ev) /\ Ev.res = "not_leader" /\ Ev.op \in DOMAIN mtrack /\ mtrack[Ev.op].st = "bound"
     THEN [mtrack EXCEPT ![Ev.op].st = "failed_nl"]
  ELSE mtrack

C18_Futures ==
  (IF Is("return") /\ Ev.op \in DOMAIN inv /\ inv[Ev.op].e.timeout > 0
      /\ Ev.t - inv[Ev.op].e.t > inv[Ev.op].e.timeout + 1000
     THEN {V("C18", "FutureResolvedAfterTimeout", <<Ev.op, Ev.call, inv[Ev.op].e.t, Ev.t, inv[Ev.op].e.timeout>>)} ELSE {})
  \cup
  (IF Is("closed") THEN
     LET lost == {o \in DOMAIN inv \ retd : <<inv[o].e.node, inv[o].e.inc>> \notin dead} IN
     IF lost # {} THEN {V("C18", "FutureNeverResolved", <<lost>>)} ELSE {}
   ELSE {})
  \cup
  (IF Is("return") /\ IsMemberCall(Ev) /\ Ev.res # "ok" /\ Ev.op \in DOMAIN mtrack /\ mtrack[Ev.op].st = "committed"
     THEN {V("C18", "MembershipFutureFailedThoughCommitted", <<Ev.op, Ev.call, Ev.id, Ev.res, mtrack[Ev.op].idx>>)} ELSE {})
  \cup
  {V("C18", "MembershipFutureFailedThoughCommitted", <<o, "not_leader", mtrack[o].idx, Ev.term, Ev.commit>>) :
     o \in {o \in DOMAIN mtrack : MemberFailedNL(mtrack[o]) /\ Ev.term = mtrack[o].term /\ Ev.commit >= mtrack[o].idx /\ Ev.applied >= mtrack[o].idx}}

\* a successful membership future reports a configuration that contains the requested change
C09_FutureTruth ==
  IF ~(Is("return") /\ IsMemberCall(Ev) /\ Ev.res = "ok") THEN {} ELSE
    LET vs == Range(Ev.cfg.v)  nvs == Range(Ev.cfg.n) IN
    IF Ev.call = "add" /\ ~(IF Ev.voter THEN Ev.id \in vs ELSE Ev.id \in nvs)
         THEN {V("C09", "FutureCfgLacksChange", <<Ev.op, Ev.id, Ev.cfg>>)}
    ELSE IF Ev.call = "remove" /\ (Ev.id \in vs \cup nvs)
         THEN {V("C09", "FutureCfgLacksChange", <<Ev.op, Ev.id, Ev.cfg>>)}
    ELSE {}

-----------------------------------------------------------------------------
(* C09 -- membership *)
CommittedCfgIdx == {i \in DOMAIN committed : committed[i].k = 2}
MaxCommittedCfg == IF CommittedCfgIdx = {} THEN 0 ELSE CHOOSE i \in CommittedCfgIdx : \A j \in CommittedCfgIdx : j <= i

\* Signature of known finding S5: a node starts leading while the configuration it has in
\* force is older than a configuration entry that is already committed (followers adopt a
\* configuration when they apply it, the leader when it appends it; two configurations apart
\* the quorums need not intersect).  From that event on, the safety clauses of the scenario
\* are attributed to S5.
\* (one configuration behind is harmless: the quorums of two configurations that differ by one
\* server always intersect; the hazard starts at two)
KF_S5 == /\ NewLeader /\ ~Is("send")
         /\ LET mine == IF Is("status") THEN Ev.cfg.i
                        ELSE IF LeadEv[1] \in DOMAIN stat THEN stat[LeadEv[1]].cfg.i ELSE MaxCommittedCfg IN
            Cardinality({i \in CommittedCfgIdx : i > mine}) >= 2

\* all nodes apply the same sequence of configurations: a node's commit index never covers a
\* configuration entry that differs from the one first committed at that index
C09_CfgAgreement ==
  IF ~Is("status") THEN {} ELSE
    LET lg == Log(Ev.node)
        diff == {i \in CommittedCfgIdx : i <= Ev.commit /\ HasIdx(lg, i) /\ At(lg, i) # committed[i]} IN
    IF diff # {} THEN {V("C09", "ConfigurationsDiverge", <<Ev.node, diff>>)} ELSE {}

CfgVoters(n) == IF n \in DOMAIN stat THEN Range(stat[n].cfg.v) ELSE {}

\* a new leader was voted for by a majority of the voters of its configuration in force
C09_LeaderVotes ==
  IF ~(OwnNoop /\ ~healed /\ Ev.node \in DOMAIN stat) THEN {} ELSE
    LET n == Ev.node  t == Ev.entries[1].t
        granters == {w[1] : w \in {x \in votes : x[2] = t /\ x[3] = n}} \cup {n}
        vs == CfgVoters(n) IN
    IF vs # {} /\ ~Majority(granters, vs)
      THEN {V("C09", "LeaderWithoutVoterMajority", <<n, t, granters, vs>>)} ELSE {}

\* vote requests go to voters only
C09_VoteRequests ==
  IF ~(Is("send") /\ Ev.kind = "rv" /\ ~Has("dupof") /\ ~healed /\ Ev.from \in DOMAIN stat) THEN {} ELSE
    IF Ev.to \notin CfgVoters(Ev.from) THEN {V("C09", "VoteRequestToNonVoter", <<Ev.from, Ev.to, CfgVoters(Ev.from)>>)} ELSE {}

\* the configuration a node has in force is a configuration entry of its own log, or lies within
\* its snapshot (judged at quiescent status reports: after a conflicting suffix is truncated the
\* node must have fallen back to a configuration it still holds)
C09_CfgInLog ==
  IF ~(Is("status") /\ meta.controlled /\ ~healed /\ Ev.cfg.i > 0 /\ "cs" \in DOMAIN Ev.cfg) THEN {} ELSE
    LET lg == Log(Ev.node)  i == Ev.cfg.i IN
    IF i <= lg.base \/ (HasIdx(lg, i) /\ At(lg, i).k = 2 /\ At(lg, i).v = Ev.cfg.cs) THEN {}
    ELSE {V("C09", "ConfigurationInForceNotInLog", <<Ev.node, Ev.cfg.cs, lg.base, LastIdx(lg)>>)}

\* one change at a time (the premise of the safety argument for single-server changes, and what
\* AddServer / RemoveServer promise by refusing with ErrPendingConfiguration): a leader does not
\* append a configuration entry while a configuration entry it appended earlier IN THE SAME TERM,
\* with other voters, has not been reported committed.  (Across terms the code does admit it - a
\* new leader does not know of an uncommitted entry it inherited: that is known finding S5's
\* territory, not this clause's.)  Step-scheduler scenarios only: `committed' is current there.
C09_OneAtATime ==
  IF ~(Is("log_append") /\ ~Has("err") /\ Ev.ctx = "" /\ Len(Ev.entries) = 1 /\ Ev.entries[1].k = 2 /\ "cv" \in DOMAIN Ev.entries[1]
       /\ meta.controlled /\ ~healed) THEN {} ELSE
    LET lg == Log(Ev.node)  e2 == Ev.entries[1]
        prior == {j \in (lg.base + 1)..LastIdx(lg) : At(lg, j).k = 2 /\ At(lg, j).t = e2.t /\ j \notin DOMAIN committed
                    /\ <<j, e2.t>> \in DOMAIN cfgv /\ cfgv[<<j, e2.t>>] # Range(e2.cv)} IN
    IF prior # {} THEN {V("C09", "SecondChangeBeforeFirstCommitted", <<Ev.node, e2.t, prior, e2.i>>)} ELSE {}

\* when a leader's commit index passes i, entry i is durable on a majority of the voters of
\* its configuration in force (now or at its previous status report)
C09_CommitMajority ==
  IF ~(Is("status") /\ Ev.role = 0 /\ ~healed /\ Ev.node \in DOMAIN stat /\ stat[Ev.node].role = 0
       /\ stat[Ev.node].term = Ev.term /\ Ev.commit > stat[Ev.node].commit) THEN {} ELSE
    LET lg == Log(Ev.node)
        news == {i \in (stat[Ev.node].commit + 1)..Ev.commit : HasIdx(lg, i)}
        \* durable as a log entry, or covered by the holder's snapshot (compacted after it was applied there)
        holders(i) == {m \in DOMAIN dur : (HasIdx(dur[m], i) /\ At(dur[m], i) = At(lg, i)) \/ i <= dur[m].base}
        okcfg(i, vs) == vs # {} /\ Majority(holders(i), vs)
        badIdx == {i \in news : ~okcfg(i, Range(Ev.cfg.v)) /\ ~okcfg(i, CfgVoters(Ev.node))} IN
    IF badIdx # {} THEN {V("C09", "CommitWithoutVoterMajority", <<Ev.node, badIdx, Range(Ev.cfg.v)>>)} ELSE {}

-----------------------------------------------------------------------------
(* C16 -- while the scenario driver keeps leader L in prompt contact with majority M (it      *)
(* delivers all traffic among M at once and brackets the period with `healthy' events),       *)
(* nothing the other nodes do makes L step down or raises the term of a member of M.          *)
NoHealthy == [on |-> FALSE, leader |-> "", maj |-> {}, term |-> 0]
NextHl ==
  IF Is("scenario") \/ Is("heal") THEN NoHealthy
  ELSE IF Is("healthy") THEN
     IF Ev.on /\ Ev.leader \in DOMAIN stat /\ stat[Ev.leader].role = 0
       THEN [on |-> TRUE, leader |-> Ev.leader, maj |-> Range(Ev.maj), term |-> stat[Ev.leader].term]
       ELSE NoHealthy
  ELSE hl

C16_Healthy ==
  IF ~hl.on THEN {} ELSE
    (IF Is("status") /\ Ev.node = hl.leader /\ (Ev.role # 0 \/ Ev.term # hl.term)
       THEN {V("C16", "HealthyLeaderDeposed", <<hl.leader, hl.term, Ev.role, Ev.term>>)} ELSE {})
    \cup
    (IF Is("set_state") /\ ~Has("err") /\ Ev.node \in hl.maj /\ Ev.term > hl.term
       THEN {V("C16", "MajorityTermIncreased", <<Ev.node, hl.term, Ev.term>>)} ELSE {})

-----------------------------------------------------------------------------
(* C10 -- snapshots are exact; C11 -- compaction / installation never lose or resurrect state *)
LastOf(q) == IF Len(q) = 0 THEN 0 ELSE q[Len(q)]
SeqSet(q) == {q[j] : j \in 1..Len(q)}
Increasing(q) == \A j \in 1..(Len(q) - 1) : q[j] < q[j + 1]
\* the operation indices a state that "contains everything up to k" holds
ExactUpTo(q, k) == Increasing(q) /\ SeqSet(q) = {j \in DOMAIN applied : j <= k}

OwnSnapshot   == Is("snap_close") /\ ~Has("err") /\ Ev.ctx = ""      \* published by takeSnapshot
InstSnapshot  == Is("snap_close") /\ ~Has("err") /\ Ev.ctx = "h"     \* published by InstallSnapshot

NextFsmc ==
  IF Is("scenario") THEN <<>>
  ELSE IF Is("apply") THEN Put(fsmc, Inst, Max(Get(fsmc, Inst, 0), Ev.index))
  ELSE IF Is("restore") THEN Put(fsmc, Inst, LastOf(Ev.content))
  ELSE fsmc

CfgIdxUpTo(k) == {j \in DOMAIN committed : committed[j].k = 2 /\ j <= k}
OwnCfgIdxUpTo(n, k) == LET lg == Log(n) IN {j \in (lg.base + 1)..Min(k, LastIdx(lg)) : At(lg, j).k = 2}

\* Signature of known finding S7: an installation publishes a file that was created for one
\* snapshot label while the request that completes it carries another (the handler appends a
\* chunk of an older snapshot to the partial file of a newer one when the offsets match, and
\* takes the boundary from the request).  The repository's TestInstallSnapshotSuccess relies on
\* exactly this, so it cannot be repaired without editing that test.
KF_S7 == \/ InstSnapshot /\ Ev.node \in DOMAIN isidx /\ isidx[Ev.node] # Ev.index
         \* the same mechanism seen where it happens: bytes of a request that carries another label
         \* are written into the file being received (the published label can equal the last request's)
         \/ Is("snap_write") /\ Ev.node \in DOMAIN wlab /\ Ev.fid = wlab[Ev.node].fid /\ Ev.node \in DOMAIN isidx /\ isidx[Ev.node] # wlab[Ev.node].index

C10_Snapshot ==
  IF ~(Is("snap_close") /\ ~Has("err")) THEN {} ELSE
    (IF ~Ev.ok THEN {V("C10", "SnapshotNotASnapshot", <<Ev.node, Ev.index, Ev.size>>)} ELSE {})
    \cup
    \* exactly the operations up to the label: none later, none missing
    (IF Ev.ok /\ ~ExactUpTo(Ev.content, Ev.index)
       THEN {V("C10", "SnapshotNotExact", <<Ev.node, Ev.ctx, Ev.index, Ev.content, {j \in DOMAIN applied : j <= Ev.index}>>)} ELSE {})
    \cup
    \* carries the configuration committed at the label
    \* (judged on the snapshotting node's own log: what it applied up to the label is what is
    \* committed up to the label; the `committed' map lags by up to one quiescence period)
    (IF OwnSnapshot /\ OwnCfgIdxUpTo(Ev.node, Ev.index) # {}
        /\ Ev.cfg.i # (CHOOSE j \in OwnCfgIdxUpTo(Ev.node, Ev.index) : \A m \in OwnCfgIdxUpTo(Ev.node, Ev.index) : m <= j)
       THEN {V("C10", "SnapshotWrongConfiguration", <<Ev.node, Ev.index, Ev.cfg.i, OwnCfgIdxUpTo(Ev.node, Ev.index)>>),
             V("C09", "SnapshotCarriesUncommittedConfiguration", <<Ev.node, Ev.index, Ev.cfg.i, OwnCfgIdxUpTo(Ev.node, Ev.index)>>)} ELSE {})

C10_Fsm ==
  (IF Is("restore") /\ (~Ev.ok \/ ~ExactUpTo(Ev.content, LastOf(Ev.content)))
     THEN {V("C10", "RestoredStateNotExact", <<Ev.node, Ev.ok, Ev.content>>)} ELSE {})
  \cup
  (IF Is("apply") /\ Inst \in DOMAIN fsmc /\ Ev.index <= fsmc[Inst]
     THEN {V("C10", "OperationAppliedTwice", <<Ev.node, Ev.index, fsmc[Inst]>>)} ELSE {})
  \cup
  (IF Is("apply") /\ \E j \in DOMAIN applied : j > Get(fsmc, Inst, 0) /\ j < Ev.index
     THEN {V("C10", "OperationSkipped", <<Ev.node, Ev.index, Get(fsmc, Inst, 0)>>)} ELSE {})

C11_Log ==
  \* the real log after a compaction is what compaction means: nothing beyond the boundary is lost
  (IF (Is("log_compact") \/ Is("log_discard") \/ Is("log_truncate") \/ Is("log_append")) /\ ~Has("err") /\ Has("last")
      /\ (Ev.last # LastIdx(LogAfter(Log(Ev.node))) \/ Ev.size # Len(LogAfter(Log(Ev.node)).ents))
     THEN {V("C11", "LogAfterOperationDiffers", <<Ev.ev, Ev.node, Ev.last, Ev.size, LastIdx(LogAfter(Log(Ev.node)))>>)} ELSE {})
  \cup
  \* discarding the whole log must not drop a committed entry beyond the snapshot
  (IF Is("log_discard") /\ ~Has("err")
      /\ \E i \in DOMAIN committed : i > Ev.index /\ HasIdx(Log(Ev.node), i) /\ At(Log(Ev.node), i) = committed[i]
     THEN {V("C11", "DiscardedCommittedEntry", <<Ev.node, Ev.index>>)} ELSE {})
  \cup
  \* the emptied log starts at the snapshot's boundary: same last index / last term as the full log,
  \* so that the node answers vote and replication requests as a node holding the full log would
  (IF Is("log_discard") /\ ~Has("err") /\ Ev.index \in DOMAIN committed /\ committed[Ev.index].t # Ev.term
     THEN {V("C11", "DiscardBoundaryTermWrong", <<Ev.node, Ev.index, Ev.term, committed[Ev.index].t>>)} ELSE {})
  \cup
  (IF Is("log_discard") /\ ~Has("err") /\ Has("lastt") /\ Ev.index \in DOMAIN committed /\ Ev.lastt # committed[Ev.index].t
     THEN {V("C11", "LastTermAfterDiscardWrong", <<Ev.node, Ev.index, Ev.lastt, committed[Ev.index].t>>)} ELSE {})
  \cup
  \* applied and commit index never move backwards within an incarnation
  (IF Is("status") /\ Ev.node \in DOMAIN stat /\ stat[Ev.node].inc = Ev.inc
      /\ (Ev.commit < stat[Ev.node].commit \/ Ev.applied < stat[Ev.node].applied)
     THEN {V("C11", "IndexMovedBackwards", <<Ev.node, stat[Ev.node].commit, stat[Ev.node].applied, Ev.commit, Ev.applied>>)} ELSE {})
  \cup
  \* a snapshot older than what the node has applied is never installed
  (IF Is("restore_begin") /\ Ev.node \in DOMAIN sopen /\ Ev.node \in DOMAIN stat /\ stat[Ev.node].inc = Ev.inc
      /\ sopen[Ev.node] < stat[Ev.node].applied
     THEN {V("C11", "InstalledOlderThanApplied", <<Ev.node, sopen[Ev.node], stat[Ev.node].applied>>)} ELSE {})
  \cup
  \* the boundary of a node's log never moves backwards: no snapshot older than the one the log
  \* already starts at is installed (judged on the storage calls themselves, so that two
  \* installations that overlap inside one quiescence period are seen)
  (IF Is("log_discard") /\ ~Has("err") /\ Ev.node \in DOMAIN dur /\ Ev.index < Log(Ev.node).base
     THEN {V("C11", "LogBoundaryMovedBackwards", <<Ev.node, Log(Ev.node).base, Ev.index>>)} ELSE {})
  \cup
  \* a node does not publish a received snapshot that is older than one it has published already
  \* (it would be "the most recent snapshot" on disk from then on)
  (IF InstSnapshot /\ Ev.index < Get(pubmax, Inst, 0)
     THEN {V("C11", "PublishedOlderSnapshot", <<Ev.node, Get(pubmax, Inst, 0), Ev.index>>)} ELSE {})
  \cup
  \* an installed snapshot is, byte for byte, a snapshot some node produced
  (IF InstSnapshot /\ <<Ev.index, Ev.term, Ev.h, Ev.size>> \notin taken
     THEN {V("C11", "InstalledSnapshotNotFromSender", <<Ev.node, Ev.index, Ev.term, Ev.size, Ev.h>>)} ELSE {})

-----------------------------------------------------------------------------
Recorder ==   \* recorder / reconstruction sanity: reported separately, never as a property violation
  (IF Is("log_append") /\ ~Has("err") /\ ~AppendContiguous(Log(Ev.node))
     THEN {V("X", "AppendNotContiguous", <<Ev.node>>)} ELSE {})
  \cup
  (IF Is("log_compact") /\ ~Has("err") /\ ~(Ev.index = Log(Ev.node).base \/ HasIdx(Log(Ev.node), Ev.index))
     THEN {V("X", "CompactOutsideLog", <<Ev.node, Ev.index>>)} ELSE {})
  \cup
  (IF Is("log_truncate") /\ ~Has("err") /\ ~HasIdx(Log(Ev.node), Ev.index)
     THEN {V("X", "TruncateOutsideLog", <<Ev.node, Ev.index>>)} ELSE {})

NewBad ==
  LET all == C01_Apply \cup C02_Election \cup C07_CommitAgree \cup C07_Completeness \cup C07_NoOverwrite
             \cup C06_LogMatching \cup C06_Handler \cup C06_Commit
             \cup C08_TermMonotone \cup C08_OneVote \cup C08_VoteUpToDate \cup C08_PrevoteInert \cup C08_Reload
             \cup C03_FutureTruth \cup C03_AtMostOnce \cup C03_RealTime \cup C03_NoInvention
             \cup C04_AckDurable \cup C04_Replay \cup C05_Reads \cup C17_Lease \cup C17_Refusal \cup C14_Abort \cup C14_CatchUp \cup C18_Panic \cup Recorder
             \cup C15_Converge \cup C18_Futures \cup C09_FutureTruth
             \cup C16_Healthy \cup C16_PrevoteMajority \cup C10_Snapshot \cup C10_Fsm \cup C11_Log
             \cup C09_CfgAgreement \cup C09_LeaderVotes \cup C09_VoteRequests \cup C09_CommitMajority \cup C09_CfgInLog \cup C09_OneAtATime
      \* violations of the replication-safety clauses after the S5 signature carry its tag
      tagged == {IF (s5 \/ KF_S5) /\ b.p \in {"C01", "C02", "C03", "C04", "C05", "C07", "C09", "C15"}
                      /\ b.c \in {"SMSafety", "LeaderCompleteness", "FutureWrongPosition", "FutureWrongResult", "AppliedNotOnMajorityDisk",
                                  "AckNotOnMajorityDisk", "CommittedTruncated", "StaleRead", "ReadWentBackwards", "ConfigurationsDiverge",
                                  "CommitWithoutVoterMajority", "RealTimeOrder", "AppliedTwice", "LeaderWithoutVoterMajority", "ElectionSafety", "NotConvergedWithin4B"}
                   THEN [b EXCEPT !.kf = "S5"]
                 ELSE IF b.p \in {"C10", "C11", "C01"} /\ Has("node") /\ (Ev.node \in s7 \/ KF_S7)
                      /\ b.c \in {"InstalledSnapshotNotFromSender", "SnapshotNotExact", "RestoredStateNotExact", "OperationAppliedTwice",
                                  "OperationSkipped", "IndexMovedBackwards", "SnapshotNotASnapshot", "InstalledOlderThanApplied", "ApplyOrder", "LogBoundaryMovedBackwards", "PublishedOlderSnapshot"}
                   THEN [b EXCEPT !.kf = "S7"]
                 \* a member whose state machine was restored from such bytes never equals the leader's
                 ELSE IF b.p = "C15" /\ b.c = "NotConvergedWithin4B" /\ s7 # {}
                   THEN [b EXCEPT !.kf = "S7"]
                 ELSE b : b \in all}
  IN {b \in tagged : b.p \in Props \/ b.p \in {"X", "W"}}

Report(S) == \A b \in S : PrintT("MONITOR-BAD|" \o b.p \o "|" \o b.c \o "|" \o b.sc \o "|" \o ToString(b.line)
                                   \o "|" \o b.kf \o "|" \o b.d)

Init ==
  /\ l = 1 /\ meta = [voters |-> <<>>, family |-> ""]
  /\ dur = <<>> /\ pstate = <<>> /\ maxterm = <<>> /\ votes = {} /\ applied = <<>> /\ cursor = <<>>
  /\ leaders = <<>> /\ lfirst = {} /\ committed = <<>> /\ cterm = <<>> /\ reqs = <<>> /\ hpre = <<>> /\ stat = <<>>
  /\ inv = <<>> /\ wdone = {} /\ rdone = {} /\ retd = {} /\ dead = {} /\ mtrack = <<>> /\ mwait = <<>>
  /\ finals = <<>> /\ healed = FALSE /\ s5 = FALSE /\ hl = NoHealthy /\ fsmc = <<>> /\ taken = {} /\ sopen = <<>> /\ isidx = <<>> /\ wlab = <<>> /\ lastae = <<>> /\ s7 = {} /\ vrep = <<>> /\ rlast = <<>> /\ rtime = <<>> /\ pubmax = <<>> /\ cfgv = <<>> /\ inhand = <<>> /\ pgr = <<>> /\ bad = {}

Next ==
  /\ l <= Len(Trace)
  /\ l' = l + 1
  /\ meta' = IF Is("scenario") THEN Ev ELSE meta
  /\ LET nb == NewBad IN
       /\ Report(nb)
       \* (every record is printed; the variable only keeps the first few dozen of a scenario - it
       \* serves the invariant `Holds' of single-trace replays, and a set that grows with every
       \* occurrence of a known finding made long scenarios quadratic)
       /\ bad' = (IF Is("scenario") THEN nb ELSE IF Cardinality(bad) >= 64 THEN bad ELSE bad \cup nb)
  /\ dur' = NextDur
  /\ pstate' = NextPstate
  /\ maxterm' = NextMaxterm
  /\ votes' = NextVotes
  /\ applied' = NextApplied
  /\ cursor' = NextCursor
  /\ leaders' = NextLeaders
  /\ lfirst' = NextLfirst
  /\ committed' = NextCommitted
  /\ cterm' = (IF Is("scenario") THEN <<>>
              ELSE IF CommitReport # {} THEN [i \in DOMAIN cterm \cup {p[1] : p \in CommitReport} |-> IF i \in DOMAIN cterm THEN cterm[i] ELSE Ev.term]
              ELSE cterm)
  /\ reqs' = NextReqs
  /\ hpre' = NextHpre
  /\ stat' = NextStat
  /\ inv' = NextInv
  /\ wdone' = NextWdone
  /\ rdone' = NextRdone
  /\ retd' = (IF Is("scenario") THEN {} ELSE IF Is("return") THEN retd \cup {Ev.op} ELSE retd)
  /\ dead' = (IF Is("scenario") THEN {} ELSE IF Is("crash") THEN dead \cup {<<Ev.node, Ev.inc>>} ELSE dead)
  /\ mtrack' = NextMtrack
  /\ mwait' = NextMwait
  /\ finals' = (IF Is("scenario") THEN <<>> ELSE IF Is("final") THEN Put(finals, Ev.node, Ev) ELSE finals)
  /\ healed' = (IF Is("scenario") THEN FALSE ELSE IF Is("heal") THEN TRUE ELSE healed)
  /\ vrep' = NextVrep
  /\ rlast' = NextRlast
  /\ rtime' = (IF Is("scenario") THEN <<>> ELSE IF Is("reply") /\ Ev.kind \in {"ae", "is"} THEN Put(rtime, <<Ev.from, Ev.to>>, Ev.t) ELSE rtime)
  /\ pgr' = NextPgr
  /\ pubmax' = (IF Is("scenario") THEN <<>>
                ELSE IF Is("snap_close") /\ ~Has("err") THEN Put(pubmax, Inst, Max(Get(pubmax, Inst, 0), Ev.index))
                ELSE pubmax)
  /\ cfgv' = (IF Is("scenario") THEN <<>>
              ELSE IF Is("log_append") /\ ~Has("err")
                THEN LET cs == {j \in 1..Len(Ev.entries) : Ev.entries[j].k = 2 /\ "cv" \in DOMAIN Ev.entries[j]} IN
                     [key \in DOMAIN cfgv \cup {<<Ev.entries[j].i, Ev.entries[j].t>> : j \in cs} |->
                        IF key \in DOMAIN cfgv THEN cfgv[key]
                        ELSE LET jj == CHOOSE j \in cs : <<Ev.entries[j].i, Ev.entries[j].t>> = key IN Range(Ev.entries[jj].cv)]
              ELSE cfgv)
  /\ inhand' = (IF Is("scenario") THEN <<>>
                ELSE IF Is("deliver") THEN Put(inhand, Ev.id, [to |-> Ev.to, inc |-> Ev.inc, kind |-> Ev.kind])
                ELSE IF (Is("handled") \/ Is("drop")) /\ Ev.id \in DOMAIN inhand THEN Del(inhand, Ev.id)
                ELSE inhand)
  /\ s5' = (IF Is("scenario") THEN FALSE ELSE s5 \/ KF_S5)
  /\ hl' = NextHl
  /\ fsmc' = NextFsmc
  /\ taken' = (IF Is("scenario") THEN {} ELSE IF OwnSnapshot \/ Is("canon") THEN taken \cup {<<Ev.index, Ev.term, Ev.h, Ev.size>>} ELSE taken)
  /\ sopen' = (IF Is("scenario") THEN <<>> ELSE IF Is("snap_open") /\ ~Has("err") THEN Put(sopen, Ev.node, Ev.index) ELSE sopen)
  /\ isidx' = (IF Is("scenario") THEN <<>>
              ELSE IF Is("deliver") /\ Ev.kind = "is" /\ Ev.id \in DOMAIN reqs THEN Put(isidx, Ev.to, reqs[Ev.id].index) ELSE isidx)
  /\ s7' = (IF Is("scenario") THEN {} ELSE IF KF_S7 THEN s7 \cup {Ev.node} ELSE s7)
  /\ wlab' = (IF Is("scenario") THEN <<>>
              ELSE IF Is("snap_new") /\ ~Has("err") /\ Ev.ctx = "h" THEN Put(wlab, Ev.node, [fid |-> Ev.fid, index |-> Ev.index])
              ELSE IF (Is("snap_close") \/ Is("snap_discard") \/ Is("crash") \/ Is("restart")) /\ Ev.node \in DOMAIN wlab THEN Del(wlab, Ev.node)
              ELSE wlab)
  /\ lastae' = NextLastae

Spec == Init /\ [][Next]_vars

Holds == bad = {}                                        \* INVARIANT in single-scenario runs
Accepted == TLCGet("stats").diameter - 1 = Len(Trace)    \* POSTCONDITION: every line consumed
=============================================================================
