------------------------------ MODULE StoreMon ------------------------------
(***************************************************************************)
(* Verdict monitor for the storage crash sweeps (C12, C13).  A trace is    *)
(* the history of one directory: operations begun / returned / failed by   *)
(* the driver process, the SIGKILL, and what freshly constructed storages  *)
(* recovered, possibly followed by further operations and reopen cycles.   *)
(***************************************************************************)
EXTENDS StoreAbs, TLC, Json

CONSTANTS TraceFile, Props
Trace == ndJsonDeserialize(TraceFile)

VARIABLES l, lg, cur, st, snaps, cursnap, bad
\* lg   : the log denoted by the operations that returned
\* cur  : operation in flight (op = "none" when none)
\* st   : [vals]  set of term/vote pairs a reopen may return
\* snaps: sequence of snapshots whose writer was closed successfully; cursnap: one being closed
vars == <<l, lg, cur, st, snaps, cursnap, bad>>

Ev == Trace[l]
Is(k) == Ev.ev = k
None == [op |-> "none"]
E(e) == [i |-> e.i, t |-> e.t, k |-> e.k, n |-> e.n]
Norm(op) == IF "ents" \in DOMAIN op THEN [op EXCEPT !.ents = [j \in 1..Len(op.ents) |-> E(op.ents[j])]] ELSE op
V(p, c, d) == [p |-> p, c |-> c, line |-> l, sc |-> Ev.sc, d |-> ToString(d), kf |-> ""]

IsLogOp(op) == op.op \in {"append", "truncate", "compact", "discard"}

RecLog == [base |-> Ev.rec.base, bterm |-> 0, ents |-> [j \in 1..Len(Ev.rec.ents) |-> E(Ev.rec.ents[j])]]
SameLog(a, b) == a.base = b.base /\ a.ents = b.ents       \* the interface does not expose the base term

\* the recovered log that is taken as the new truth after a reopen (it must be allowed)
Chosen ==
  IF "log_err" \in DOMAIN Ev.rec THEN lg
  ELSE LET ok == {x \in Allowed(lg, IF IsLogOp(cur) THEN cur ELSE None) : SameLog(x, RecLog)} IN
       IF ok = {} THEN lg ELSE CHOOSE x \in ok : TRUE

C12 ==
  IF ~Is("reopen") THEN {} ELSE
    IF "log_err" \in DOMAIN Ev.rec THEN {V("C12", "ReopenFailed", <<Ev.rec.log_err, cur.op>>)}
    ELSE
      (IF ~\E x \in Allowed(lg, IF IsLogOp(cur) THEN cur ELSE None) : SameLog(x, RecLog)
         THEN {V("C12", "RecoveredLogNotAllowed", <<cur.op, lg.base, Len(lg.ents), Ev.rec.base, Len(Ev.rec.ents)>>)} ELSE {})
      \cup
      (IF \E j \in 1..Len(Ev.rec.ents) : ~Ev.rec.ents[j].ok
         THEN {V("C12", "EntryDataCorrupt", <<Ev.rec.ents>>)} ELSE {})

\* an operation the abstract log accepts must not fail on a reopened log ("keeps working")
C12_Works ==
  IF Is("error") /\ IsLogOp(cur) /\ Applicable(lg, cur) THEN {V("C12", "OperationFailedAfterRecovery", <<cur.op, Ev.msg>>)}
  ELSE IF Is("error") /\ cur.op = "open" THEN {V("C12", "OpenFailed", <<Ev.msg>>)}
  ELSE {}

\* C13: term/vote
StAllowed == st \cup (IF cur.op = "set" THEN {<<cur.t, cur.vote>>} ELSE {})
C13_State ==
  IF ~Is("reopen") THEN {} ELSE
    IF "state_err" \in DOMAIN Ev.rec THEN {V("C13", "StateReopenFailed", <<Ev.rec.state_err>>)}
    ELSE IF <<Ev.rec.term, Ev.rec.vote>> \notin StAllowed THEN {V("C13", "StateNotAllowed", <<Ev.rec.term, Ev.rec.vote, StAllowed>>)}
    ELSE {}

\* C13: snapshots -- the most recent snapshot whose writer was closed successfully
LastSnap == IF Len(snaps) = 0 THEN [i |-> 0, t |-> 0, size |-> 0, cfg |-> ""] ELSE snaps[Len(snaps)]
SnapAllowed == {LastSnap} \cup (IF cur.op = "snap_write" THEN {[i |-> cur.i, t |-> cur.t, size |-> cur.size, cfg |-> cur.cfg]} ELSE {})
C13_Snap ==
  IF ~Is("reopen") THEN {} ELSE
    IF "snap_err" \in DOMAIN Ev.rec THEN {V("C13", "SnapshotReopenFailed", <<Ev.rec.snap_err>>)}
    ELSE LET r == Ev.rec.snap IN
      (IF [i |-> r.i, t |-> r.t, size |-> r.size, cfg |-> r.cfg] \notin SnapAllowed
         THEN {V("C13", "SnapshotNotAllowed", <<r.i, r.size, LastSnap.i, LastSnap.size, Len(snaps)>>)} ELSE {})
      \cup (IF ~r.ok THEN {V("C13", "SnapshotBytesCorrupt", <<r.i, r.size>>)} ELSE {})
C13_Works ==
  IF Is("error") /\ cur.op \in {"set", "snap_write", "snap_discard"} THEN {V("C13", "OperationFailed", <<cur.op, Ev.msg>>)} ELSE {}

NewBad == {b \in C12 \cup C12_Works \cup C13_State \cup C13_Snap \cup C13_Works : b.p \in Props}
Report(S) == \A b \in S : PrintT("MONITOR-BAD|" \o b.p \o "|" \o b.c \o "|" \o b.sc \o "|" \o ToString(b.line) \o "|" \o b.kf \o "|" \o b.d)

Init == l = 1 /\ lg = EmptyLog /\ cur = None /\ st = {<<0, "">>} /\ snaps = <<>> /\ cursnap = None /\ bad = {}

Next ==
  /\ l <= Len(Trace)
  /\ l' = l + 1
  /\ LET nb == NewBad IN Report(nb) /\ bad' = (IF Is("scenario") THEN {} ELSE bad) \cup nb
  /\ cur' = IF Is("scenario") THEN None
            ELSE IF Is("begin") THEN Norm(Ev.o)
            ELSE IF Is("done") \/ Is("error") \/ Is("reopen") THEN None
            ELSE cur
  /\ lg' = IF Is("scenario") THEN EmptyLog
           ELSE IF Is("done") /\ IsLogOp(cur) THEN ApplyOp(lg, cur)
           ELSE IF Is("reopen") THEN Chosen
           ELSE lg
  /\ st' = IF Is("scenario") THEN {<<0, "">>}
           ELSE IF Is("done") /\ cur.op = "set" THEN {<<cur.t, cur.vote>>}
           ELSE IF Is("reopen") /\ "state_err" \notin DOMAIN Ev.rec /\ <<Ev.rec.term, Ev.rec.vote>> \in StAllowed THEN {<<Ev.rec.term, Ev.rec.vote>>}
           ELSE st
  /\ snaps' = IF Is("scenario") THEN <<>>
              ELSE IF Is("done") /\ cur.op = "snap_write" THEN Append(snaps, [i |-> cur.i, t |-> cur.t, size |-> cur.size, cfg |-> cur.cfg])
              ELSE IF Is("reopen") /\ "snap_err" \notin DOMAIN Ev.rec /\ cur.op = "snap_write"
                      /\ [i |-> Ev.rec.snap.i, t |-> Ev.rec.snap.t, size |-> Ev.rec.snap.size, cfg |-> Ev.rec.snap.cfg] = [i |-> cur.i, t |-> cur.t, size |-> cur.size, cfg |-> cur.cfg]
                      /\ LastSnap # [i |-> cur.i, t |-> cur.t, size |-> cur.size, cfg |-> cur.cfg]
                   THEN Append(snaps, [i |-> cur.i, t |-> cur.t, size |-> cur.size, cfg |-> cur.cfg])
              ELSE snaps
  /\ cursnap' = cursnap

Spec == Init /\ [][Next]_vars
Holds == bad = {}
Accepted == TLCGet("stats").diameter - 1 = Len(Trace)
=============================================================================
