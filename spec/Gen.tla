-------------------------------- MODULE Gen --------------------------------
(***************************************************************************)
(* Behaviour generation: Raft.tla's actions with a history variable that   *)
(* records, per step, the action with its arguments and the projection of  *)
(* every node's state that the replay driver can observe on the real code. *)
(* Used with `tlc -simulate'; every behaviour prefix is written as JSON.   *)
(***************************************************************************)
EXTENDS Raft, Json, SequencesExt

CONSTANTS OutDir
VARIABLE hist

Proj(s) == [term |-> s.term, vote |-> ToString(s.vote), role |-> s.role,
            last |-> LastIdx(s.log), lastt |-> LastTerm(s.log), commit |-> s.commit,
            pend |-> Cardinality(DOMAIN s.pend), base |-> s.log.base, snap |-> s.snap.idx, cfgi |-> s.cfg.idx]
Step(a, n, p, v) == hist' = Append(hist, [a |-> a, n |-> ToString(n), p |-> ToString(p), v |-> ToString(v),
                                          post |-> [m \in Node |-> Proj(ns'[m])]])

\* asynchronous grain: the message a step is about (identified by the REQUEST's kind, endpoints and
\* round, plus whether the step handles the request or its response) and the requests it puts on the wire
MKind(m) == IF m.kind \in {"rvq", "rvr"} THEN "rv" ELSE IF m.kind \in {"isq", "isr"} THEN "is" ELSE "ae"
MsgId(m) ==
  LET q == IF m.kind \in {"rvq", "aeq", "isq"} THEN m ELSE m.req IN
  [kind |-> MKind(m), phase |-> IF m.kind \in {"rvq", "aeq", "isq"} THEN "req" ELSE "resp", from |-> ToString(q.from), to |-> ToString(q.to),
   round |-> m.round, pre |-> IF MKind(m) = "rv" THEN q.pre ELSE FALSE, term |-> q.term]
Spawned == {MsgId(x) : x \in {y \in net' \ net : y.kind \in {"rvq", "aeq", "isq"}}}
StepA(a, n) == hist' = Append(hist, [a |-> a, n |-> ToString(n), p |-> ToString(n), v |-> "",
                                     post |-> [x \in Node |-> Proj(ns'[x])], spawn |-> SetToSeq(Spawned)])
StepM(a, m) == hist' = Append(hist, [a |-> a, n |-> MsgId(m).from, p |-> MsgId(m).to, v |-> "",
                                     post |-> [x \in Node |-> Proj(ns'[x])], m |-> MsgId(m), spawn |-> SetToSeq(Spawned)])

GInit == Init /\ hist = <<>>
GNext ==
  \/ \E n \in Node : TimerFire(n) /\ Step("TimerFire", n, n, "")
  \/ \E n, p \in Node : RVExchange(n, p) /\ Step("RVExchange", n, p, "")
  \/ \E n, p \in Node : RVHalf(n, p) /\ Step("RVHalf", n, p, "")
  \/ \E n, p \in Node : AEExchange(n, p) /\ Step("AEExchange", n, p, "")
  \/ \E n, p \in Node : AEHalf(n, p) /\ Step("AEHalf", n, p, "")
  \/ \E n \in Node, v \in Value : ClientSubmit(n, v) /\ Step("ClientSubmit", n, n, v)
  \/ \E n \in Node : Crash(n) /\ Step("Crash", n, n, "")
  \/ \E n \in Node : Restart(n) /\ Step("Restart", n, n, "")
  \/ \E n \in Node : ArmSnapshot(n) /\ Step("ArmSnapshot", n, n, "")
  \/ \E n, p \in Node : ISExchange(n, p) /\ Step("ISExchange", n, p, "")
  \/ \E n, p \in Node : AddServer(n, p, TRUE) /\ Step("AddVoter", n, p, "")
  \/ \E n, p \in Node : AddServer(n, p, FALSE) /\ Step("AddNonVoter", n, p, "")
  \/ \E n, p \in Node : RemoveServer(n, p) /\ Step("RemoveServer", n, p, "")
  \/ \E n \in Node : AdoptSnapshot(n) /\ Step("AdoptSnapshot", n, n, "")
  \/ \E n \in Node : TimerFireA(n) /\ StepA("TimerFireA", n)
  \/ \E n \in Node : StartRound(n) /\ StepA("StartRound", n)
  \/ \E n \in Node : ClientRead(n) /\ StepA("ClientRead", n)
  \/ \E m \in net : RVHandle(m) /\ StepM("RVHandle", m)
  \/ \E m \in net : RVReply(m) /\ StepM("RVReply", m)
  \/ \E m \in net : AEHandle(m) /\ StepM("AEHandle", m)
  \/ \E m \in net : AEReply(m) /\ StepM("AEReply", m)
  \/ \E m \in net : ISHandle(m) /\ StepM("ISHandle", m)
  \/ \E m \in net : ISReply(m) /\ StepM("ISReply", m)
  \/ \E m \in net : Lose(m) /\ StepM("Lose", m)
GSpec == GInit /\ [][GNext]_<<vars, hist>>

\* "invariant" with a side effect: the current prefix of behaviour number k goes to t<k>.json
Export == JsonSerialize(OutDir \o "/t" \o ToString(TLCGet("stats").traces) \o ".json", hist)
=============================================================================
