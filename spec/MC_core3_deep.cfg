\* thorough tier: larger bounds, time-boxed
CONSTANTS
  Node = {a, b, c}
  InitVoters = {a, b, c}
  Value = {x, y}
  Nil = Nil
  MaxTerm = 3
  MaxLog = 4
  MaxTimer = 7
  MaxAE = 3
  MaxClient = 1
  MaxCrash = 0
  MaxHalf = 1
  MaxCfg = 0
  MaxRead = 0
  MaxSnap = 0
  SnapSize = 1
  AsyncKinds = {}
  MaxNet = 0
  W = {}
  MayTimeout = {a, b, c}
  MayLink = {}
  Gen = FALSE
SPECIFICATION Spec
SYMMETRY Symm
INVARIANTS ElectionSafety LogMatching NoViolation CommittedDurable PrevoteForThisTerm VotesWithinAsked TypeOK
CHECK_DEADLOCK FALSE
