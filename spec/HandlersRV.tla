----------------------------- MODULE HandlersRV -----------------------------
(***************************************************************************)
(* Single node versus environment for the RequestVote handler (C08 ii):    *)
(* TLC enumerates voter states x sequences of two requests x an optional   *)
(* crash + restart between them, and the replies and durable states that   *)
(* Raft.tla's HandleRV (with its persist points) predicts.  Each case is   *)
(* run on a real node constructed over the voter state; the contact is     *)
(* lapsed before each request (the spec's sticky = FALSE).                 *)
(*   voter: term 1..2, vote none / a / b, log (boot) | (boot, e2 of term   *)
(*          1) | (boot, e2 of term 2 - only if its term is 2), compacted   *)
(*          up to b in 0..Len (own snapshot labelled b)                    *)
(*   request: candidate a / b, term = voter's or one higher, last log      *)
(*            equal to the voter's or one entry shorter, prevote or real   *)
(***************************************************************************)
EXTENDS Raft, Json

Logs(t) == {<<BootEntry>>, <<BootEntry, Entry(1, "noop", Nil)>>} \cup (IF t >= 2 THEN {<<BootEntry, Entry(2, "noop", Nil)>>} ELSE {})
LastT(q) == q[Len(q)].t

Reqs(vt, q) ==
  { [kind |-> "rv", from |-> c, term |-> vt + dt, last |-> Len(q) - short, lastt |-> IF short = 1 THEN q[Len(q) - 1].t ELSE LastT(q), pre |-> pre] :
      c \in {"a", "b"}, dt \in {0, 1}, short \in (IF Len(q) > 1 THEN {0, 1} ELSE {0}), pre \in BOOLEAN }

Cases ==
  UNION { UNION { { [vt |-> vt, vote |-> vote, q |-> q, r1 |-> r1, crash |-> cr, r2 |-> r2] :
                      r1 \in Reqs(vt, q), cr \in BOOLEAN, r2 \in Reqs(vt, q) \cup Reqs(vt + 1, q) } : q \in Logs(vt) } :
          vt \in 1..2, vote \in {"none", "a", "b"} }
\* ... and every compaction point of the voter's log: b = Len(q) is a voter whose log file holds nothing
\* but the snapshot boundary (seeded change C08c: "an empty log is older than every candidate's")
CasesB == { [x |-> x, b |-> b] : x \in Cases, b \in 0..2 } 

Voter(x) ==
  LET v == IF x.vote = "none" THEN Nil ELSE x.vote IN
  [InitNode EXCEPT !.term = x.vt, !.vote = v, !.dterm = x.vt, !.dvote = v,
                   !.log = [base |-> x.b, bterm |-> IF x.b = 0 THEN 0 ELSE x.q[x.b].t, ents |-> SubSeq(x.q, x.b + 1, Len(x.q))]]

\* crash + restart: volatile state gone, term / vote from the durable copies
Restarted(s) == [s EXCEPT !.term = s.dterm, !.vote = s.dvote, !.role = "F"]

KindNo(k) == IF k = "cfg" THEN 2 ELSE IF k = "noop" THEN 0 ELSE 1
Wire(es) == [j \in 1..Len(es) |-> [i |-> j, t |-> es[j].t, k |-> KindNo(es[j].k), v |-> ""]]
Str(v) == IF v = Nil THEN "" ELSE v

Out(x) ==
  LET s0 == Voter(x)
      h1 == HandleRV(s0, x.r1, FALSE)
      s1 == IF x.crash THEN Restarted(h1.s) ELSE h1.s
      h2 == HandleRV(s1, x.r2, FALSE) IN
  [ prep |-> [term |-> x.vt, vote |-> Str(s0.vote), ents |-> Wire(x.q), snap_idx |-> x.b],
    r1 |-> [term |-> x.r1.term, last |-> x.r1.last, lastt |-> x.r1.lastt, pre |-> x.r1.pre], c1 |-> x.r1.from,
    crash |-> x.crash,
    r2 |-> [term |-> x.r2.term, last |-> x.r2.last, lastt |-> x.r2.lastt, pre |-> x.r2.pre], c2 |-> x.r2.from,
    e1 |-> [ok |-> h1.reply.ok, rterm |-> h1.reply.term, dterm |-> h1.s.dterm, dvote |-> Str(h1.s.dvote)],
    e2 |-> [ok |-> h2.reply.ok, rterm |-> h2.reply.term, dterm |-> h2.s.dterm, dvote |-> Str(h2.s.dvote)] ]

VARIABLE case
HInit == /\ case \in {[f \in DOMAIN y.x \cup {"b"} |-> IF f = "b" THEN y.b ELSE y.x[f]] : y \in {z \in CasesB : z.b <= Len(z.x.q)}}
         /\ ns = [n \in Node |-> InitNode] /\ net = {} /\ budget = <<>> /\ elected = {} /\ comm = <<>> /\ voted = {} /\ acked = 0 /\ viol = {}
HNext == UNCHANGED <<case, vars>>
Emit == PrintT("CASE|" \o ToJson(Out(case)))
=============================================================================
