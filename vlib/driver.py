"""Orchestration: build the harness from /repo's working tree, run scenario jobs in child
processes, hand the recorded traces to TLC (property monitors), run the TLC model-checking
configuration of the property, write evidence, print verdict lines."""
import argparse, hashlib, json, os, random, re, shutil, subprocess, sys, time
from concurrent.futures import ThreadPoolExecutor

ROOT = os.path.dirname(os.path.dirname(os.path.abspath(__file__)))
OUT = os.path.join(ROOT, "out")
BIN = os.path.join(ROOT, "bin")
SPEC = os.path.join(ROOT, "spec")
NPROC = int(os.environ.get("VERIF_NPROC", str(os.cpu_count() or 4)))
TLA_CP = "/opt/veriftools/tla/tla2tools.jar:/opt/veriftools/tla/CommunityModules-deps.jar"

GOENV = dict(os.environ, GOFLAGS="-mod=mod", GOPROXY="off", GOSUMDB="off", GOTOOLCHAIN="local")
GO = shutil.which("go1.26.8") or "/opt/veriftools/go1.26.8/bin/go"


class NoVerdict(Exception):
    pass


def log(*a):
    print(*a, flush=True)


# ------------------------------------------------------------------------------------------
# build

def build_harness():
    """Rebuild the harness test binary against /repo's current working tree (hooks on)."""
    os.makedirs(BIN, exist_ok=True)
    try:
        shutil.copy("/repo/go.sum", os.path.join(ROOT, "harness", "go.sum"))
    except OSError:
        pass
    t0 = time.time()
    r = subprocess.run([GO, "test", "-tags", "verif", "-c", "-o", os.path.join(BIN, "harness.test"), "."],
                       cwd=os.path.join(ROOT, "harness"), env=GOENV, capture_output=True, text=True)
    if r.returncode != 0:
        raise NoVerdict("harness does not build against /repo:\n" + (r.stdout + r.stderr)[-3000:])
    return time.time() - t0


# ------------------------------------------------------------------------------------------
# running scenarios in child processes

def _append_event(trace, ev):
    with open(trace, "a") as f:
        f.write(json.dumps(ev) + "\n")


def run_child(job, workdir, per_scenario_timeout=120):
    """Run one job file; restart the child after an abort so that the remaining scenarios
    still run. Returns dict(aborts=[...], leaks=[...])."""
    jobfile = os.path.join(workdir, os.path.basename(job["trace"]) + ".job.json")
    with open(jobfile, "w") as f:
        json.dump(job, f)
    n = len(job["scenarios"])
    start, aborts, leaks = 0, [], []
    guard = 0
    while start < n and guard < n + 2:
        guard += 1
        env = dict(os.environ, VERIF_JOB=jobfile, VERIF_START=str(start), GOMAXPROCS=os.environ.get("VERIF_GOMAXPROCS", "2"))
        try:
            r = subprocess.run([os.path.join(BIN, "harness.test"), "-test.run", "^TestRun$", "-test.timeout", "0"],
                               env=env, capture_output=True, text=True, timeout=per_scenario_timeout * max(1, n - start))
            rc, err = r.returncode, (r.stdout + r.stderr)
        except subprocess.TimeoutExpired as e:
            rc, err = -9, "harness child timed out\n" + str(e.stdout or "")[-500:]
        if rc == 0:
            break
        # which scenario was running?
        idx, name = start, "?"
        try:
            with open(job["trace"] + ".progress") as f:
                parts = f.read().split()
                idx, name = int(parts[0]), parts[1]
        except Exception:
            pass
        if name == "done":
            break
        tail = err[-1500:]
        if "FATAL:" in err and "could not perform rename" in err and "snapshots/tmp-snapshot" in err and "file exists" in err:
            # Two snapshot files of one node created at the same *virtual* nanosecond get the same
            # snapshot-<UnixNano> directory name; a real clock does not stand still. Harness artefact.
            why, kind = "snapshot directory name collision under the frozen virtual clock", "artefact"
        elif "FATAL:" in err:
            m = re.search(r"FATAL:\s*(.*)", err)
            why = "fatal: " + (m.group(1)[:300] if m else "")
            kind = "abort"
        elif "deadlock: all goroutines in bubble are blocked" in err or "blocked goroutines" in err:
            why, kind = "bubble deadlock (goroutines parked for good)", "leak"
        elif rc == -9:
            why, kind = "child timed out", "leak"
        elif "panic:" in err:
            m = re.search(r"panic:\s*(.*)", err)
            why = "panic: " + (m.group(1)[:300] if m else "")
            kind = "abort"
        else:
            why, kind = "child exit %d" % rc, "abort"
        ev = {"seq": 0, "t": 0, "sc": name, "ev": kind, "why": why}
        _append_event(job["trace"], ev)
        (aborts if kind == "abort" else leaks).append({"scenario": name, "why": why, "tail": tail})
        start = idx + 1
    return {"aborts": aborts, "leaks": leaks}


def run_jobs(scenarios, workdir, seed, per_child=None):
    """Split scenarios over child processes; returns (trace files, abort info)."""
    os.makedirs(workdir, exist_ok=True)
    if per_child is None:
        per_child = max(1, (len(scenarios) + NPROC - 1) // NPROC)
    jobs = []
    for k in range(0, len(scenarios), per_child):
        trace = os.path.join(workdir, "trace-%03d.ndjson" % (k // per_child))
        for p in (trace, trace + ".progress"):
            if os.path.exists(p):
                os.remove(p)
        jobs.append({"trace": trace, "seed": seed * 1000 + k, "scenarios": scenarios[k:k + per_child]})
    with ThreadPoolExecutor(max_workers=NPROC) as ex:
        res = list(ex.map(lambda j: run_child(j, workdir), jobs))
    aborts = [a for r in res for a in r["aborts"]]
    leaks = [a for r in res for a in r["leaks"]]
    return [j["trace"] for j in jobs if os.path.exists(j["trace"])], aborts, leaks


# ------------------------------------------------------------------------------------------
# TLC

def tlc_cmd(extra_java=()):
    return ["java", "-XX:+UseParallelGC", "-Xss64m"] + list(extra_java) + ["-cp", TLA_CP, "tlc2.TLC"]


def stage_spec(workdir, modules):
    os.makedirs(workdir, exist_ok=True)
    for m in modules:
        shutil.copy(os.path.join(SPEC, m), workdir)


BAD_RE = re.compile(r'^"MONITOR-BAD\|([^|]*)\|([^|]*)\|([^|]*)\|([^|]*)\|([^|]*)\|(.*)"$')


def run_monitor(trace, props, workdir, module="Monitors", invariant=False, timeout=1800, extra_modules=()):
    """Validate one trace file with the TLC monitors. Returns dict(bad=[...], accepted, states, out)."""
    name = os.path.basename(trace).replace(".ndjson", "")
    d = os.path.join(workdir, "mon-" + name)
    stage_spec(d, [module + ".tla"] + list(extra_modules))
    cfg = os.path.join(d, module + ".cfg")
    with open(cfg, "w") as f:
        f.write('CONSTANTS\n  TraceFile = "%s"\n  Props = {%s}\n' % (trace, ", ".join('"%s"' % p for p in sorted(props))))
        f.write("SPECIFICATION Spec\nPOSTCONDITION Accepted\nCHECK_DEADLOCK FALSE\n")
        if invariant:
            f.write("INVARIANT Holds\n")
    try:
        r = subprocess.run(tlc_cmd(["-Xmx3g"]) + ["-workers", "1", "-metadir", os.path.join(d, "md"), "-config", cfg, module + ".tla"],
                           cwd=d, capture_output=True, text=True, timeout=timeout)
        out = r.stdout + r.stderr
    except subprocess.TimeoutExpired:
        return {"bad": [], "accepted": False, "states": 0, "out": "TLC monitor timed out", "trace": trace}
    bad = []
    for line in out.splitlines():
        m = BAD_RE.match(line.strip())
        if m:
            bad.append({"p": m.group(1), "c": m.group(2), "sc": m.group(3), "line": int(m.group(4)), "kf": m.group(5),
                        "d": m.group(6).replace('\\"', '"'), "trace": trace})
    ms = re.search(r"(\d+) states generated, (\d+) distinct states found", out)
    states = int(ms.group(2)) if ms else 0
    accepted = "Model checking completed. No error has been found." in out
    if invariant and "Invariant Holds is violated" in out:
        accepted = True  # the run stopped at the violation on purpose
    shutil.rmtree(os.path.join(d, "md"), ignore_errors=True)
    return {"bad": bad, "accepted": accepted, "states": states, "out": out, "trace": trace}


def run_monitors(traces, props, workdir):
    with ThreadPoolExecutor(max_workers=max(1, NPROC // 2)) as ex:
        return list(ex.map(lambda t: run_monitor(t, props, workdir), traces))


def model_check(cfgname, workdir, timeout, workers=None, modules=("Raft.tla",), simulate=None, seed=0, module=None):
    """Run a TLC model-checking configuration of the design. Returns dict(states, transitions,
    finished, violated, out)."""
    d = os.path.join(workdir, "mc-" + cfgname)
    if os.path.exists(d):
        shutil.rmtree(d)
    module = module or cfgname
    mods = list(modules) + [module + ".tla", cfgname + ".cfg"]
    stage_spec(d, mods)
    cmd = tlc_cmd(["-Xmx12g"]) + ["-workers", str(workers or NPROC), "-metadir", os.path.join(d, "md"), "-config", cfgname + ".cfg"]
    if simulate:
        cmd += ["-simulate", simulate, "-seed", str(seed)]
    cmd += [module + ".tla"]
    t0 = time.time()
    finished = True
    try:
        r = subprocess.run(cmd, cwd=d, capture_output=True, text=True, timeout=timeout)
        out = r.stdout + r.stderr
    except subprocess.TimeoutExpired as e:
        finished = False
        out = (e.stdout or b"").decode("utf8", "replace") if isinstance(e.stdout, (bytes, bytearray)) else (e.stdout or "")
    gen, dist = 0, 0
    for m in re.finditer(r"(\d[\d,]*) states generated.*?(\d[\d,]*) distinct states", out):
        gen, dist = int(m.group(1).replace(",", "")), int(m.group(2).replace(",", ""))
    for m in re.finditer(r"Progress\(\d+\) at [^:]*:\d+:\d+: ([\d,]+) states generated .*?, ([\d,]+) distinct states", out):
        gen, dist = max(gen, int(m.group(1).replace(",", ""))), max(dist, int(m.group(2).replace(",", "")))
    violated = ("is violated" in out) or ("Error: " in out and "Deadlock" in out)
    complete = finished and "Model checking completed. No error has been found." in out
    shutil.rmtree(os.path.join(d, "md"), ignore_errors=True)
    return {"states": dist, "transitions": gen, "finished": complete, "violated": violated, "out": out,
            "wall_s": time.time() - t0, "cfg": cfgname}


# ------------------------------------------------------------------------------------------
# known findings

def load_known():
    p = os.path.join(ROOT, "known_findings.json")
    if not os.path.exists(p):
        return []
    with open(p) as f:
        return json.load(f).get("findings", [])


def split_known(prop, bad):
    """Separate monitor rejections explained by a listed, unrepaired finding (matched by the
    signature tag the monitor computed) from the rest."""
    known = [k for k in load_known() if k.get("status") == "known" and prop in k.get("properties", [k.get("property")])]
    tags = {k["kf"]: k for k in known}
    hits, rest = {}, []
    for b in bad:
        if b["kf"] and b["kf"] in tags:
            hits.setdefault(b["kf"], []).append(b)
        else:
            rest.append(b)
    return hits, rest, tags


# ------------------------------------------------------------------------------------------
# evidence / replay files

def read_trace(trace):
    with open(trace) as f:
        for line in f:
            line = line.strip()
            if line:
                yield json.loads(line)


def scenario_events(trace, sc):
    return [e for e in read_trace(trace) if e.get("sc") == sc]


def write_replay(prop, b, scen_by_name, workdir):
    os.makedirs(os.path.join(OUT, "replays"), exist_ok=True)
    path = os.path.join(OUT, "replays", "%s-%s-%s.json" % (prop, b["sc"], b["c"]))
    evs = scenario_events(b["trace"], b["sc"])
    doc = {"property": prop, "clause": b["c"], "detail": b["d"], "scenario": scen_by_name.get(b["sc"]),
           "trace_line_in_batch": b["line"], "trace": evs}
    with open(path, "w") as f:
        json.dump(doc, f)
    return path


def write_evidence(prop, doc):
    # (development runs against a deliberately changed /repo keep their evidence out of the tree)
    d = os.environ.get("VERIF_EVIDENCE_DIR") or os.path.join(ROOT, "evidence")
    os.makedirs(d, exist_ok=True)
    with open(os.path.join(d, prop + ".json"), "w") as f:
        json.dump(doc, f, indent=1)


# ------------------------------------------------------------------------------------------

def main(argv):
    import props
    if not argv:
        print(__doc__)
        return 2
    if argv[0] == "setup":
        try:
            dt = build_harness()
            log("harness built in %.1fs" % dt)
            r = subprocess.run(tlc_cmd() + ["-h"], capture_output=True, text=True)
            return 0
        except NoVerdict as e:
            log("SETUP FAILED:", e)
            return 2
    ap = argparse.ArgumentParser()
    ap.add_argument("prop")
    ap.add_argument("--tier", default=os.environ.get("VERIF_TIER", "quick"))
    ap.add_argument("--seed", type=int, default=int(os.environ.get("VERIF_SEED", "1")))
    ap.add_argument("--replay")
    ap.add_argument("--keep", action="store_true")
    a = ap.parse_args(argv)
    if a.prop not in props.PROPS:
        log("unknown property", a.prop)
        return 2
    try:
        if a.replay:
            return props.replay(a.prop, a.replay)
        return props.run_check(a.prop, a.tier, a.seed, keep=a.keep)
    except NoVerdict as e:
        log("NO-VERDICT property=%s: %s" % (a.prop, e))
        return 2
