"""Per-property check definitions: which scenario families drive the real code, which
monitor clauses judge it, which TLC configuration checks the design."""
import glob, json, os, random, time, hashlib

import driver
from driver import ROOT, OUT, log, NoVerdict

# ------------------------------------------------------------------------------------------
# scenario families (each returns a Scenario dict for harness/sched.go)

IDS = ["a", "b", "c", "d", "e"]


def sseed(seed, fam, i):
    h = hashlib.sha256(("%d/%s/%d" % (seed, fam, i)).encode()).digest()
    return int.from_bytes(h[:6], "big")


def fam_core(seed, i, tier):
    """static membership, message-level adversary, no crashes"""
    rng = random.Random(sseed(seed, "core", i))
    nv = rng.choice([1, 2, 3, 3, 3, 3, 4, 5, 5])
    return {"name": "core-%d-%d" % (seed, i), "family": "core", "voters": IDS[:nv], "controlled": True, "auto": False,
            "heal": True, "heal_et": 60,
            "random": {"seed": sseed(seed, "core.r", i), "steps": rng.choice([120, 250, 400]), "reads": False,
                       "crashes": False, "w": {"submit": 10, "fire": 8}}}


def fam_crash(seed, i, tier):
    """static membership with crashes at storage-operation boundaries and restarts"""
    rng = random.Random(sseed(seed, "crash", i))
    nv = rng.choice([2, 3, 3, 3, 4, 5])
    return {"name": "crash-%d-%d" % (seed, i), "family": "crash", "voters": IDS[:nv], "controlled": True, "auto": False,
            "heal": True, "heal_et": 60,
            "random": {"seed": sseed(seed, "crash.r", i), "steps": rng.choice([150, 300, 450]), "reads": False,
                       "crashes": True, "max_down": nv if rng.random() < 0.3 else 0,
                       "w": {"submit": 10, "fire": 8, "crash": 1, "armcrash": 3, "restart": 8, "stop": 1}}}


def fam_reads(seed, i, tier):
    rng = random.Random(sseed(seed, "reads", i))
    nv = rng.choice([1, 2, 3, 3, 4, 5])
    return {"name": "reads-%d-%d" % (seed, i), "family": "reads", "voters": IDS[:nv], "controlled": True, "auto": False,
            "heal": True, "heal_et": 60,
            "random": {"seed": sseed(seed, "reads.r", i), "steps": rng.choice([150, 300]), "reads": True,
                       "crashes": False, "w": {"submit": 8, "read": 10, "fire": 8, "hb": 12}}}


def fam_member(seed, i, tier, s5free=False):
    """membership changes (add non-voter / voter, promote, remove incl. the leader) with faults"""
    rng = random.Random(sseed(seed, "member" + ("5" if s5free else ""), i))
    nv = rng.choice([1, 2, 3, 3, 4])
    extra = [x for x in IDS if x not in IDS[:nv]][:rng.choice([1, 2, 2])]
    return {"name": "member%s-%d-%d" % ("5" if s5free else "", seed, i), "family": "member", "voters": IDS[:nv], "extra": extra,
            "controlled": True, "auto": False, "heal": True, "heal_et": 60,
            "snap_every": rng.choice([0, 0, 4]), "snap_pad": rng.choice([0, 40000]),
            "random": {"seed": sseed(seed, "member.r", i), "steps": rng.choice([200, 350, 500]), "members": True, "s5free": s5free,
                       "reads": rng.random() < 0.4, "crashes": rng.random() < 0.4, "snaps": rng.random() < 0.6,
                       "w": {"submit": 8, "fire": 6, "member": 6, "hb": 12, "read": 4, "crash": 1, "armcrash": 1, "restart": 6, "snapnow": 4, "gate": 0, "release": 0}}}


def fam_member5(seed, i, tier):
    return fam_member(seed, i, tier, s5free=True)


def fam_healthy(seed, i, tier):
    """a random prelude, then leader + majority kept in prompt contact while the adversary owns the minority"""
    rng = random.Random(sseed(seed, "healthy", i))
    nv = rng.choice([3, 3, 3, 5])
    return {"name": "healthy-%d-%d" % (seed, i), "family": "healthy", "voters": IDS[:nv], "controlled": True, "auto": False,
            "heal": True, "heal_et": 60,
            "random": {"seed": sseed(seed, "healthy.r", i), "steps": rng.choice([40, 80, 150]), "crashes": rng.random() < 0.3,
                       "w": {"submit": 6, "fire": 10, "hb": 6}, "healthy_steps": rng.choice([60, 120])}}


def fam_snap(seed, i, tier):
    """snapshots: automatic and scheduler-triggered, gated Snapshot/Apply/Restore, lagging followers, chunked transfer"""
    rng = random.Random(sseed(seed, "snap", i))
    nv = rng.choice([1, 2, 3, 3, 3, 5])
    return {"name": "snap-%d-%d" % (seed, i), "family": "snap", "voters": IDS[:nv], "controlled": True, "auto": False,
            "heal": True, "heal_et": 60, "snap_every": rng.choice([0, 3, 5, 8]), "snap_pad": rng.choice([0, 0, 100, 32768 - 60, 40000, 70000]),
            "random": {"seed": sseed(seed, "snap.r", i), "steps": rng.choice([200, 350, 500]), "snaps": True, "crashes": rng.random() < 0.5,
                       "reads": False, "w": {"submit": 14, "fire": 5, "hb": 12, "snapnow": 5, "gate": 3, "release": 5, "crash": 1, "armcrash": 2, "restart": 6, "adv": 3}}}


def crashpoint_scenarios(workdir, seed, tier):
    """C14's quantifier made literal: for every storage operation any node performs in a base
    scenario, one run that crashes the node immediately before it and one immediately after it."""
    bases = []
    for p in sorted(glob.glob(os.path.join(ROOT, "corpus", "base", "*.json"))):
        with open(p) as f:
            bases.append(json.load(f))
    traces, _, _ = driver.run_jobs([dict(b, name="cpbase-" + b["name"]) for b in bases], os.path.join(workdir, "cpbase"), seed)
    ops = {}
    for t in traces:
        for e in driver.read_trace(t):
            if "k" in e and "node" in e and e["ev"] in ("log_append", "log_truncate", "log_compact", "log_discard", "set_state",
                                                      "snap_new", "snap_write", "snap_close", "snap_discard"):
                key = (e["sc"], e["node"])
                if e.get("inc", 1) == 1:
                    ops[key] = max(ops.get(key, 0), e["k"])
    variants = []
    always = []
    for b in bases:
        for node in b.get("cp_nodes", b["voters"]):
            kmax = ops.get(("cpbase-" + b["name"], node), 0)
            for k in range(2, kmax + 1):          # operation 1 is the Bootstrap append of the skeleton
                for when in ("before", "after"):
                    sc = json.loads(json.dumps(b))
                    sc["name"] = "cp-%s-%s-%d%s" % (b["name"], node, k, when[0])
                    sc["stimuli"] = [{"op": "armcrash", "n": node, "k": k - 1, "w": when}] + sc["stimuli"]
                    sc.pop("cp_nodes", None)
                    # base scenarios that name the nodes of interest are small: never sampled away
                    (always if "cp_nodes" in b else variants).append(sc)
    total = len(variants) + len(always)
    if tier == "quick" and total > 160:
        rng = random.Random(sseed(seed, "cp", 0))
        rng.shuffle(variants)
        variants = variants[:max(0, 160 - len(always))]
    variants = always + variants
    return variants, {"crash_points_enumerated": total, "crash_points_run": len(variants), "crash_point_base_scenarios": [b["name"] for b in bases]}


def load_domain(name):
    import gzip
    with gzip.open(os.path.join(ROOT, "corpus", "domains", name + ".jsonl.gz"), "rt") as f:
        return [json.loads(l) for l in f if l.strip()]


def hae_scenario(name, case):
    """one (follower state, AppendEntries request) pair of the TLC-enumerated domain, on a real node"""
    prep = dict(case["prep"])
    ents = prep["ents"]
    last = ents[-1]
    st = []
    if case["commit"] > prep.get("snap_idx", 0):
        # bring the commit index to the case's value with a well-formed heartbeat of the node's own term
        st.append({"op": "inject", "n": "c", "kind": "ae", "from": "a",
                   "req": {"term": prep["term"], "prev": last["i"], "prevt": last["t"], "commit": case["commit"], "ents": []}})
    st.append({"op": "inject", "n": "c", "kind": "ae", "from": "b", "req": case["req"], "exp": case["exp"]})
    return {"name": name, "family": "hae", "voters": ["a", "b", "c"], "no_start": ["a", "b"], "controlled": True, "auto": False, "heal": False,
            "prep": {"c": prep}, "stimuli": st}


def hrv_scenario(name, case):
    """one (voter state, two RequestVote requests, optional crash between) case of the TLC-enumerated domain"""
    st = [{"op": "adv", "d": 350},
          {"op": "inject", "n": "c", "kind": "rv", "from": case["c1"], "req": case["r1"], "exp": case["e1"]}]
    if case["crash"]:
        st += [{"op": "crash", "n": "c"}, {"op": "restart", "n": "c"}]
    st += [{"op": "adv", "d": 350},
           {"op": "inject", "n": "c", "kind": "rv", "from": case["c2"], "req": case["r2"], "exp": case["e2"]}]
    return {"name": name, "family": "hrv", "voters": ["a", "b", "c"], "no_start": ["a", "b"], "controlled": True, "auto": False, "heal": False,
            "prep": {"c": case["prep"]}, "stimuli": st}


def fam_hrv_all(seed, tier):
    cases = load_domain("hrv")
    rng = random.Random(sseed(seed, "hrv", 0))
    idx = list(range(len(cases)))
    rng.shuffle(idx)
    take = idx[:4000] if tier == "quick" else idx
    return [hrv_scenario("hrv-%d" % k, cases[k]) for k in take], {"handler_domain": "hrv", "handler_domain_size": len(cases),
                                                                  "handler_cases_run": len(take), "handler_domain_exhaustive": len(take) == len(cases)}


def fam_healstates_all(seed, tier):
    """C15 from TLC-enumerated durable cluster states (divergent tails, stale / far-ahead terms, one voter down)"""
    cases = load_domain("healstates")
    rng = random.Random(sseed(seed, "hs", 0))
    idx = list(range(len(cases)))
    rng.shuffle(idx)
    # ... and an entry of term T means T had a leader, elected by a majority: a state in which fewer
    # than two of the three nodes have reached T is not reachable either (same artefact)
    def reachable(c):
        for n in ("a", "b", "c"):
            for e in c[n]["ents"]:
                if e["i"] > 1 and sum(1 for m in ("a", "b", "c") if c[m]["term"] >= e["t"]) < 2:
                    return False
        return True
    idx = [k for k in idx if reachable(cases[k])]
    take = idx[:700] if tier == "quick" else idx
    scs = []
    for k in take:
        c = cases[k]
        # HealStates.tla enumerates terms and logs, not votes.  A state in which some log holds an entry
        # of term T while a node whose current term is T "has not voted yet" is not reachable: T had a
        # leader, and a node that is in T has either voted for it or learnt T from it - if it could
        # still vote in T a second leader of T could be elected during recovery (three of the 10 044
        # states did that in the first thorough run: two different entries with one index and term,
        # reported as NotConvergedWithin4B; a check artefact, DESIGN.md 12.19).  The vote of such a
        # node is the leader of its term: the node that holds most entries of that term.
        def leader_of(t):
            best, cnt = "", 0
            for n in ("a", "b", "c"):
                k2 = sum(1 for e in c[n]["ents"] if e["t"] == t and e["i"] > 1)
                if k2 > cnt:
                    best, cnt = n, k2
            return best
        sc = {"name": "hs-%d" % k, "family": "healstate", "voters": ["a", "b", "c"], "controlled": False, "auto": True, "heal": True, "heal_et": 60,
              "prep": {n: {"term": c[n]["term"], "vote": leader_of(c[n]["term"]), "ents": c[n]["ents"]} for n in ("a", "b", "c")}, "stimuli": []}
        if c["down"] != "none":
            sc["no_start"] = [c["down"]]
            sc["heal_keep_down"] = [c["down"]]
        scs.append(sc)
    return scs, {"heal_state_domain_size": len(cases), "heal_states_reachable": len(idx), "heal_states_run": len(take)}


def fam_hae_all(seed, tier):
    cases = load_domain("hae-K2T2")
    rng = random.Random(sseed(seed, "hae", 0))
    idx = list(range(len(cases)))
    rng.shuffle(idx)
    take = idx[:1600] if tier == "quick" else idx
    return [hae_scenario("hae-%d" % k, cases[k]) for k in take], {"handler_domain": "hae-K2T2", "handler_domain_size": len(cases),
                                                                  "handler_cases_run": len(take), "handler_domain_exhaustive": len(take) == len(cases)}


def snaprace_scenarios():
    """C10's interleavings made explicit: a follower with committed-but-unapplied entries (gated Apply)
    receives a snapshot in the code's request sequence while it applies those entries and takes a
    local snapshot at every possible position in between; single- and multi-chunk payloads;
    optionally a crash + restart of the follower right after."""
    X = [{"op": "hb", "n": "a"}, {"op": "xchg", "kind": "is", "from": "a", "to": "c"}]
    Y = [{"op": "snapnow", "n": "c"}, {"op": "release", "n": "c", "w": "apply"}]
    pre = [{"op": "fire", "n": "a"}, {"op": "xchg", "kind": "rv", "from": "a", "to": "b"}, {"op": "xchg", "kind": "rv", "from": "a", "to": "b"},
           {"op": "xchg", "kind": "ae", "from": "a", "to": "b"}, {"op": "hb", "n": "a"}, {"op": "xchg", "kind": "ae", "from": "a", "to": "c"},
           {"op": "gate", "n": "c", "w": "apply"},
           {"op": "submit", "n": "a", "val": "w1", "to_ms": 60000}, {"op": "submit", "n": "a", "val": "w2", "to_ms": 60000},
           {"op": "xchg", "kind": "ae", "from": "a", "to": "b"}, {"op": "hb", "n": "a"}, {"op": "xchg", "kind": "ae", "from": "a", "to": "c"},
           {"op": "submit", "n": "a", "val": "w3", "to_ms": 60000}, {"op": "submit", "n": "a", "val": "w4", "to_ms": 60000},
           {"op": "snapnow", "n": "a"}, {"op": "xchg", "kind": "ae", "from": "a", "to": "b"}]
    post = [{"op": "hb", "n": "a"}, {"op": "xchg", "kind": "ae", "from": "a", "to": "c"}, {"op": "hb", "n": "a"}, {"op": "xchg", "kind": "ae", "from": "a", "to": "c"},
            {"op": "submit", "n": "a", "val": "w5", "to_ms": 60000}, {"op": "xchg", "kind": "ae", "from": "a", "to": "b"},
            {"op": "hb", "n": "a"}, {"op": "xchg", "kind": "ae", "from": "a", "to": "c"}, {"op": "hb", "n": "a"}, {"op": "xchg", "kind": "ae", "from": "a", "to": "c"}]
    out = []
    for pad in (100, 40000):
        for ypos in range(5):
            for crash in (False, True):
                mid = []
                for k in range(4):
                    if k == ypos:
                        mid += Y
                    mid += X
                if ypos == 4:
                    mid += Y
                tail = ([{"op": "crash", "n": "c"}, {"op": "restart", "n": "c"}] if crash else []) + post
                out.append({"name": "snaprace-p%d-y%d%s" % (pad, ypos, "-crash" if crash else ""), "family": "snap", "voters": ["a", "b", "c"],
                            "controlled": True, "auto": False, "heal": True, "heal_et": 60, "snap_pad": pad, "stimuli": pre + mid + tail})
    # leader side: the leader already has a snapshot and a follower that needs one; it takes a second
    # snapshot, and a replication step towards that follower runs before the new file is written, in
    # the window after the new file is published but before takeSnapshot has the node's lock again
    # (gate after:snap_close), or after it.
    E = [{"op": "fire", "n": "a"}, {"op": "xchg", "kind": "rv", "from": "a", "to": "b"}, {"op": "xchg", "kind": "rv", "from": "a", "to": "b"},
         {"op": "xchg", "kind": "ae", "from": "a", "to": "b"}]
    def ops(vals):
        o = []
        for v in vals:
            o += [{"op": "submit", "n": "a", "val": v, "to_ms": 60000}]
        return o + [{"op": "xchg", "kind": "ae", "from": "a", "to": "b"}, {"op": "hb", "n": "a"}, {"op": "xchg", "kind": "ae", "from": "a", "to": "b"}]
    IS = [{"op": "hb", "n": "a"}, {"op": "xchg", "kind": "is", "from": "a", "to": "c"}]
    catchup = []
    for k in range(3):
        catchup += [{"op": "hb", "n": "a"}, {"op": "xchg", "kind": "ae", "from": "a", "to": "c"}, {"op": "hb", "n": "a"}, {"op": "xchg", "kind": "is", "from": "a", "to": "c"}]
    # (a transfer that is already open keeps its file, so the follower's need for a snapshot has to
    # arise inside the window: the leader was restarted and re-elected - fresh follower state,
    # nextIndex past the follower's log - and learns from a rejection that the follower is behind
    # its first snapshot)
    relect = [{"op": "crash", "n": "a"}, {"op": "restart", "n": "a"}, {"op": "adv", "d": 350}, {"op": "fire", "n": "a"},
              {"op": "xchg", "kind": "rv", "from": "a", "to": "b"}, {"op": "xchg", "kind": "rv", "from": "a", "to": "b"},
              {"op": "xchg", "kind": "ae", "from": "a", "to": "b"}]
    learn = [{"op": "hb", "n": "a"}, {"op": "xchg", "kind": "ae", "from": "a", "to": "c"}]
    for pad in (100, 40000):
        for when in ("before", "window", "after"):
            for crash in (False, True):
                st = E + ops(["w1", "w2"]) + [{"op": "snapnow", "n": "a"}] + ops(["w3"])       # first snapshot; c was never reached
                st += relect + ops(["w4", "w5"])
                if when == "before":
                    st += learn + IS
                st += [{"op": "gate", "n": "a", "w": "after:snap_close"}, {"op": "snapnow", "n": "a"}] + ops(["w6"])   # second snapshot parks after publication
                if when == "window":
                    st += learn + IS + IS
                st += [{"op": "release", "n": "a", "w": "after:snap_close"}]
                if when == "after":
                    st += learn + IS + IS
                if crash:
                    st += [{"op": "crash", "n": "a"}, {"op": "restart", "n": "a"}, {"op": "crash", "n": "c"}, {"op": "restart", "n": "c"}]
                else:
                    st += catchup + ops(["w7"]) + catchup
                out.append({"name": "snaplead-p%d-%s%s" % (pad, when, "-crash" if crash else ""), "family": "snap", "voters": ["a", "b", "c"],
                            "controlled": True, "auto": False, "heal": True, "heal_et": 60, "snap_pad": pad, "stimuli": st})
    # follower side, two installations overlapping: the request for an OLDER snapshot was delayed and
    # arrives while the newer one is being restored (Restore gated: the handler has published the
    # newer snapshot and released the lock) - before the restore, in the middle of it, after it
    for when in ("before", "during", "after"):
        for crash in (False, True):
            st = [{"op": "nolimit"}] + E + ops(["w1", "w2"]) + [{"op": "snapnow", "n": "a"}] + ops(["w3"])
            st += [{"op": "hb", "n": "a"}]                                   # IS(older) on the wire, kept
            st += ops(["w4", "w5"]) + [{"op": "snapnow", "n": "a"}] + ops(["w6"])      # newer snapshot, transfer files reset
            st += [{"op": "hb", "n": "a"}]                                   # IS(newer) on the wire
            older = [{"op": "deliver", "kind": "is", "from": "a", "to": "c", "sel": "first", "off0": True}]     # the first complete request: the older snapshot
            newer = [{"op": "deliver", "kind": "is", "from": "a", "to": "c", "off0": True}]                      # the last complete request: the newer one
            if when == "before":
                st += older + newer
            elif when == "during":
                st += [{"op": "gate", "n": "c", "w": "restore"}] + newer + older + [{"op": "release", "n": "c", "w": "restore"}]
            else:
                st += newer + older
            st += [{"op": "reply", "kind": "is", "from": "a", "to": "c"}, {"op": "reply", "kind": "is", "from": "a", "to": "c"}]
            if crash:
                st += [{"op": "crash", "n": "c"}, {"op": "restart", "n": "c"}]
            st += catchup + ops(["w7"]) + catchup
            out.append({"name": "snapolder-%s%s" % (when, "-crash" if crash else ""), "family": "snap", "voters": ["a", "b", "c"],
                        "controlled": True, "auto": False, "heal": True, "heal_et": 60, "snap_pad": 100, "stimuli": st})
    # three installations overlapping (S23): requests for three successive snapshots are handled
    # while the first restore is in progress; whichever waiter wakes first, the node must end at
    # the newest.  Several repetitions: the order in which the waiters wake is not the scheduler's.
    for rep in range(6):
        st = [{"op": "nolimit"}] + E + ops(["w1", "w2"]) + [{"op": "snapnow", "n": "a"}] + ops(["w3"]) + [{"op": "hb", "n": "a"}]
        st += ops(["w4"]) + [{"op": "snapnow", "n": "a"}] + ops(["w5"]) + [{"op": "hb", "n": "a"}]
        st += ops(["w6"]) + [{"op": "snapnow", "n": "a"}] + ops(["w7"]) + [{"op": "hb", "n": "a"}]
        st += [{"op": "gate", "n": "c", "w": "restore"}]
        st += [{"op": "deliver", "kind": "is", "from": "a", "to": "c", "sel": "first", "off0": True} for k in range(3)]   # oldest first: all three pass the "nothing new" check
        st += [{"op": "release", "n": "c", "w": "restore"}, {"op": "adv", "d": 10}]
        st += [{"op": "reply", "kind": "is", "from": "a", "to": "c"} for k in range(3)]
        st += catchup + ops(["w8"]) + catchup
        out.append({"name": "snapthree-%d" % rep, "family": "snap", "voters": ["a", "b", "c"],
                    "controlled": True, "auto": False, "heal": True, "heal_et": 60, "snap_pad": 100, "stimuli": st})
    return out


def fam_lease(seed, i, tier):
    """lease reads under the timing assumption: every message is delivered within a bound below
    election timeout - lease duration (300 - 100 ms) or dropped by a partition; one virtual clock"""
    rng = random.Random(sseed(seed, "lease", i))
    nv = rng.choice([2, 3, 3, 3, 5])
    members = rng.random() < 0.35
    extra = [x for x in IDS if x not in IDS[:nv]][:2] if members else []
    st = []
    sc = {"name": "lease-%d-%d" % (seed, i), "family": "lease", "voters": IDS[:nv], "extra": extra, "controlled": False, "auto": True,
          "latency_us": rng.choice([0, 1000, 20000]), "jitter_us": rng.choice([1000, 50000, 150000]),
          "heal": True, "heal_et": 60, "stimuli": st,
          "random": {"seed": sseed(seed, "lease.r", i), "steps": rng.choice([120, 250, 400]), "timed": True, "reads": True,
                     "crashes": rng.random() < 0.3, "members": members}}
    if members:
        # let a leader emerge, then add the extra nodes as non-voters
        st += [{"op": "adv", "d": 1500}]
        for x in extra:
            for v in IDS[:nv]:
                st.append({"op": "add", "n": v, "id": x, "v": False, "to_ms": 1000})
            st.append({"op": "adv", "d": 400})
    return sc


FAMILIES = {"lease": fam_lease, "snap": fam_snap, "healthy": fam_healthy, "core": fam_core, "crash": fam_crash, "reads": fam_reads, "member": fam_member, "member5": fam_member5}

# ---- API programs (C18): enumerated by TLC from Api.tla ------------------------------------

ROLE_PREFIX = {
    "leader": [{"op": "fire", "n": "a"}, {"op": "xchg", "kind": "rv", "from": "a", "to": "b"}, {"op": "xchg", "kind": "rv", "from": "a", "to": "b"},
               {"op": "xchg", "kind": "ae", "from": "a", "to": "b"}],
    "follower": [{"op": "fire", "n": "b"}, {"op": "xchg", "kind": "rv", "from": "b", "to": "c"}, {"op": "xchg", "kind": "rv", "from": "b", "to": "c"},
                 {"op": "xchg", "kind": "ae", "from": "b", "to": "c"}, {"op": "hb", "n": "b"}, {"op": "xchg", "kind": "ae", "from": "b", "to": "a"}],
    "precandidate": [{"op": "fire", "n": "a"}],
    "candidate": [{"op": "fire", "n": "a"}, {"op": "xchg", "kind": "rv", "from": "a", "to": "b"}],
    # pre-candidate whose vote requests are in flight towards a node that is two terms ahead
    "precandidate_behind": [{"op": "fire", "n": "b"}, {"op": "xchg", "kind": "rv", "from": "b", "to": "c"}, {"op": "adv", "d": 350}, {"op": "fire", "n": "b"},
                            {"op": "xchg", "kind": "rv", "from": "b", "to": "c", "pre": True}, {"op": "dropall", "kind": "rv", "from": "b"}, {"op": "fire", "n": "a"}],
    "fresh": [],
}


API_TAIL = [{"op": "xchg", "kind": k, "from": "a", "to": t} for k in ("rv", "ae") for t in ("b", "c")]


def api_call_stim(call, k):
    a = {"n": "a"}
    m = {
        "bootstrap": {"op": "api", "val": "bootstrap"}, "bootstrap_other": {"op": "api", "val": "bootstrap", "id": "z"},
        "start": {"op": "api", "val": "start"}, "stop": {"op": "api", "val": "stop"}, "restart": {"op": "api", "val": "restart"},
        "status_string": {"op": "api", "val": "status_string"}, "cfg_string": {"op": "api", "val": "cfg_string"},
        "rep": {"op": "submit", "val": "p%d" % k, "k": 0, "to_ms": 5000}, "rep_empty": {"op": "submit", "val": "", "k": 0, "to_ms": 5000},
        "rep_short": {"op": "submit", "val": "q%d" % k, "k": 0, "to_ms": 30}, "lin": {"op": "submit", "val": "l%d" % k, "k": 1, "to_ms": 5000},
        "lin_short": {"op": "submit", "val": "m%d" % k, "k": 1, "to_ms": 30}, "lease": {"op": "submit", "val": "e%d" % k, "k": 2, "to_ms": 5000},
        "badtype": {"op": "submit", "val": "b%d" % k, "k": 7, "to_ms": 1000},
        "add_self": {"op": "add", "id": "a", "v": True, "to_ms": 3000}, "add_voter": {"op": "add", "id": "d", "v": True, "to_ms": 3000},
        "add_nonvoter": {"op": "add", "id": "e", "v": False, "to_ms": 3000}, "add_empty": {"op": "add", "id": "", "v": True, "to_ms": 3000},
        "remove_self": {"op": "remove", "id": "a", "to_ms": 3000}, "remove_member": {"op": "remove", "id": "b", "to_ms": 3000},
        "remove_stranger": {"op": "remove", "id": "z", "to_ms": 3000},
    }[call]
    return dict(m, **a)


def api_programs(workdir, maxlen):
    import subprocess
    d = os.path.join(workdir, "api-gen")
    driver.stage_spec(d, ["Api.tla"])
    with open(os.path.join(d, "Api.cfg"), "w") as f:
        f.write("CONSTANTS MaxLen = %d\nSPECIFICATION Spec\nINVARIANT Emit\nCHECK_DEADLOCK FALSE\n" % maxlen)
    r = subprocess.run(driver.tlc_cmd(["-Xmx3g"]) + ["-workers", "1", "-metadir", os.path.join(d, "md"), "-config", "Api.cfg", "Api.tla"],
                       cwd=d, capture_output=True, text=True, timeout=900)
    progs = []
    for line in r.stdout.splitlines():
        line = line.strip().strip('"')
        if line.startswith("PROG|"):
            _, start, body = line.split("|", 2)
            progs.append((start, [c.split(":") for c in body.split(",") if c]))
    ms = __import__("re").search(r"(\d+) distinct states found", r.stdout)
    return progs, (int(ms.group(1)) if ms else 0)


def fam_api_all(seed, tier, workdir):
    progs, states = api_programs(workdir, 2 if tier == "quick" else 3)
    rng = random.Random(sseed(seed, "api", 0))
    combos = []
    for start, calls in progs:
        roles = ["leader", "follower", "precandidate", "candidate", "precandidate_behind"] if start.startswith("running") else ["fresh"]
        for role in roles:
            combos.append((start, role, calls))
    rng.shuffle(combos)
    take = combos[:TIER[tier]["unit"] * 16] if tier == "quick" else combos[:12000]
    scs = []
    for i, (start, role, calls) in enumerate(take):
        sc = {"name": "api-%d-%d" % (seed, i), "family": "api", "voters": ["a", "b", "c"], "controlled": True, "auto": False,
              "heal": True, "heal_et": 30, "api": {"start": start, "role": role, "calls": calls}}
        if start.startswith("created"):
            sc["no_start"] = ["a"]
            if "+boot" not in start:
                sc["no_bootstrap"] = ["a"]
        st = list(ROLE_PREFIX[role])
        for k, (call, expect) in enumerate(calls):
            st.append(api_call_stim(call, k))
            st.append({"op": "adv", "d": 20})
        # requests of the node that are still in flight are answered now - also when the node has
        # been stopped meanwhile (late responses at a stopped node)
        st += API_TAIL
        # let whatever the program started make progress before the scenario is healed
        st += [{"op": "controlled", "on": False}, {"op": "auto", "on": True}, {"op": "adv", "d": 700}]
        sc["stimuli"] = st
        scs.append(sc)
    return scs, {"api_programs_enumerated": len(progs), "api_spec_states": states, "api_combinations": len(combos)}


def gen_spec_behaviours(cfgname, workdir, num, depth, seed, voters, extra=()):
    """TLC -simulate on Gen.tla: behaviours of Raft.tla with the action, its arguments and the
    observable projection of every node after each step, replayed on real nodes."""
    import shutil, subprocess
    d = os.path.join(workdir, "gen-" + cfgname)
    out = os.path.join(d, "out")
    os.makedirs(out, exist_ok=True)
    driver.stage_spec(d, ["Raft.tla", "Gen.tla"])
    with open(os.path.join(driver.SPEC, cfgname + ".cfg")) as f:
        cfg = f.read().replace("OUTDIR", out)
    with open(os.path.join(d, "Gen.cfg"), "w") as f:
        f.write(cfg)
    r = subprocess.run(driver.tlc_cmd(["-Xmx3g"]) + ["-workers", "1", "-metadir", os.path.join(d, "md"), "-config", "Gen.cfg",
                                                     "-simulate", "num=%d" % num, "-depth", str(depth), "-seed", str(seed), "Gen.tla"],
                       cwd=d, capture_output=True, text=True, timeout=900)
    if "Error:" in r.stdout and "is violated" in r.stdout:
        raise NoVerdict("simulation of %s found a design-level counterexample:\n%s" % (cfgname, r.stdout[-3000:]))
    scs = []
    for i, fn in enumerate(sorted(glob.glob(os.path.join(out, "t*.json")))):
        with open(fn) as f:
            h = json.load(f)
        if len(h) < 4:
            continue
        scs.append({"name": "sim-%s-%d-%d" % (cfgname, seed, i), "family": "sim", "voters": voters, "extra": list(extra), "controlled": True,
                    "auto": False, "heal": True, "heal_et": 60, "spec": h, **({"snap_window": True} if "snapwin" in cfgname else {}),
                    **({"snap_pad": 40000} if "snapasync" in cfgname else {})})   # SnapSize = 2: payload beyond one transfer chunk
    shutil.rmtree(os.path.join(d, "md"), ignore_errors=True)
    return scs


def corpus(names):
    """committed schedules (attack schedules and regression witnesses)"""
    out = []
    for n in names:
        for p in sorted(glob.glob(os.path.join(ROOT, "corpus", n, "*.json"))):
            with open(p) as f:
                sc = json.load(f)
            sc.setdefault("name", n + "-" + os.path.basename(p)[:-5])
            sc["name"] = "corpus-" + sc["name"]
            out.append(sc)
    return out


# ------------------------------------------------------------------------------------------
# non-triviality rules (computed from the recorded events of one scenario)

def scen_stats(evs):
    st = {"leaders": set(), "crashes": 0, "applies": 0, "appliers": set(), "truncates": 0, "ok_writes": 0, "ok_reads": 0,
          "votes": 0, "cand_terms": {}, "events": len(evs), "restarts": 0, "nonleader_reads": 0, "ae_rejects": 0,
          "spec_steps": 0, "spec_matched": 0, "spec_drift": 0, "api_calls": 0, "cfg_appends": 0, "healthy_fires": 0, "in_healthy": False, "snaps": 0, "compacts": 0, "ok_lease": 0, "blocks": 0}
    for e in evs:
        ev = e["ev"]
        if ev == "status" and e["role"] == 0:
            st["leaders"].add((e["node"], e["term"]))
        elif ev == "crash":
            st["crashes"] += 1
        elif ev == "invoke":
            st["api_calls"] += 1
        elif ev == "spec_done":
            st["spec_steps"], st["spec_matched"], st["spec_drift"] = e["steps"], e["matched"], e["drift"]
        elif ev == "restart":
            st["restarts"] += 1
        elif ev == "apply":
            st["applies"] += 1
            st["appliers"].add(e["node"])
        elif ev == "log_truncate":
            st["truncates"] += 1
        elif ev == "snap_close":
            st["snaps"] += 1
        elif ev in ("log_compact", "log_discard"):
            st["compacts"] += 1
        elif ev == "healthy":
            st["in_healthy"] = e["on"]
        elif ev == "fire" and st["in_healthy"]:
            st["healthy_fires"] += 1
        elif ev == "log_append" and e.get("ctx") == "" and e["entries"] and e["entries"][0]["k"] == 2 and e["entries"][0]["i"] > 1:
            st["cfg_appends"] += 1
        elif ev == "step" and isinstance(e.get("s"), dict) and e["s"].get("op") == "block":
            st["blocks"] += 1
        elif ev == "return" and e.get("res") == "ok" and e.get("call") == "submit":
            if e["kind"] == 2:
                st["ok_lease"] += 1
            if e["kind"] == 0:
                st["ok_writes"] += 1
            else:
                st["ok_reads"] += 1
        elif ev == "set_state" and e.get("vote") == e.get("node"):
            st["cand_terms"].setdefault(e["term"], set()).add(e["node"])
        elif ev == "handled" and e.get("kind") == "rv":
            st["votes"] += 1
        elif ev == "handled" and e.get("kind") == "ae" and e.get("ok") is False:
            st["ae_rejects"] += 1
    return st


RULES = {
    "C01": ("at least two leaderships and >= 2 nodes applied an operation",
            lambda s: len(s["leaders"]) >= 2 and len(s["appliers"]) >= 2),
    "C02": (">= 2 candidates in one term, or a crash/restart between vote requests",
            lambda s: any(len(v) >= 2 for v in s["cand_terms"].values()) or (s["crashes"] > 0 and s["votes"] > 2)),
    "C03": ("a successful submission and a leader change", lambda s: s["ok_writes"] >= 1 and len(s["leaders"]) >= 2),
    "C04": ("an acknowledged operation and at least one crash", lambda s: s["ok_writes"] >= 1 and s["crashes"] >= 1),
    "C05": ("a successful read and a leader change", lambda s: s["ok_reads"] >= 1 and len(s["leaders"]) >= 2),
    "C06": ("a log truncation or a rejected AppendEntries happened", lambda s: s["truncates"] >= 1 or s["ae_rejects"] >= 1),
    "C07": (">= 2 leaderships with entries applied in between", lambda s: len(s["leaders"]) >= 2 and s["applies"] >= 1),
    "C08": ("votes were requested in >= 2 terms or a voter crashed", lambda s: len(s["cand_terms"]) >= 2 or s["crashes"] >= 1),
    "C14": ("a crash at a storage-operation boundary followed by a restart", lambda s: s["crashes"] >= 1 and s["restarts"] >= 1),
    "C09": ("a membership change was appended and a leader change happened", lambda s: s["cfg_appends"] >= 1 and len(s["leaders"]) >= 2),
    "C10": ("a snapshot was taken or installed", lambda s: s["snaps"] >= 1),
    "C11": ("a log compaction or a snapshot installation happened", lambda s: s["compacts"] >= 1),
    "C17": ("a lease-based read succeeded and a partition or leader change happened", lambda s: s["ok_lease"] >= 1 and (s["blocks"] >= 1 or len(s["leaders"]) >= 2)),
    "C16": ("a healthy period was established and a minority node's timer fired in it", lambda s: s["healthy_fires"] >= 1),
    "C15": ("at heal time some node was down, behind the leader or in a stale term", lambda s: s["crashes"] >= 1 or s["truncates"] >= 1 or len(s["leaders"]) >= 2),
    "C18": ("an API program of at least two calls was executed", lambda s: s["api_calls"] >= 2),
}

# ------------------------------------------------------------------------------------------

PROPS = {
    "C01": dict(fams=[("core", 3), ("crash", 2), ("snap", 2)], corpus=["core", "crash", "snap"], mc="MC_core3", mc_deep="MC_core3_deep", gen=[("Gen_core3", ["a", "b", "c"], 40)]),
    "C02": dict(fams=[("core", 3), ("crash", 2)], corpus=["core", "crash"], mc="MC_core3", mc_deep="MC_core3_deep", gen=[("Gen_core3", ["a", "b", "c"], 40), ("Gen_async3", ["a", "b", "c"], 45)]),
    "C03": dict(fams=[("core", 3), ("crash", 1), ("snap", 2)], corpus=["core", "snap", "api"], mc="MC_core3", mc_deep="MC_core3_deep", gen=[("Gen_core3", ["a", "b", "c"], 40)]),
    "C04": dict(fams=[("crash", 5)], corpus=["crash", "core"], mc="MC_crash3", mc_deep="MC_crash3_deep"),
    "C05": dict(fams=[("reads", 5)], corpus=["reads"], mc="MC_reads3", mc_deep="MC_reads3_deep", gen=[("Gen_async3", ["a", "b", "c"], 45)]),
    "C06": dict(fams=[("core", 3), ("crash", 2)], corpus=["core", "crash"], mc="MC_core3", mc_deep="MC_core3_deep", gen=[("Gen_core3", ["a", "b", "c"], 40)], hae=True),
    "C07": dict(fams=[("core", 3), ("crash", 2)], corpus=["core", "crash"], mc="MC_core3", mc_deep="MC_core3_deep", gen=[("Gen_core3", ["a", "b", "c"], 40)]),
    "C08": dict(fams=[("core", 2), ("crash", 3)], corpus=["core", "crash"], mc="MC_crash3", mc_deep="MC_crash3_deep", hrv=True),
    "C14": dict(fams=[("crash", 3), ("snap", 2)], corpus=["crash", "snap"], mc="MC_crash3", mc_deep="MC_crash3_deep", crashpoints=True),
    "C09": dict(fams=[("member", 3), ("member5", 3)], corpus=["member"], mc="MC_member3", mc_deep="MC_member3_deep", monitor_props=["C01", "C02", "C07", "C09", "C05"],
                gen=[("Gen_member4", ["a", "b"], 45, ["c", "d"]), ("Gen_snapasyncmember3", ["a", "b", "c"], 55)]),
    "C10": dict(fams=[("snap", 6)], corpus=["snap"], mc="MC_snap3", mc_deep="MC_snapwin3", gen=[("Gen_snap3", ["a", "b", "c"], 45), ("Gen_snapwin3", ["a", "b", "c"], 45)], snaprace=True),
    "C11": dict(fams=[("snap", 6)], corpus=["snap"], mc="MC_snapasync3", mc_deep="MC_snap3_deep", gen=[("Gen_snap3", ["a", "b", "c"], 45), ("Gen_snapasync3", ["a", "b", "c"], 45), ("Gen_snapasyncmember3", ["a", "b", "c"], 55)], snaprace=True),
    "C12": dict(storage=True),
    "C13": dict(storage=True),
    "C15": dict(fams=[("core", 2), ("crash", 2), ("snap", 2), ("member5", 2)], corpus=["core", "crash", "snap", "member"], mc="MC_heal", mc_deep="MC_heal_deep", mc_module="Heal", healstates=True),
    "C16": dict(fams=[("healthy", 5), ("core", 2)], corpus=["healthy"], mc="MC_async3", mc_deep="MC_healthy", mc_deep_module="RaftHealthy"),
    "C17": dict(fams=[("lease", 6)], corpus=["lease"], mc="MC_timed", mc_module="RaftTimed"),
    "C18": dict(fams=[("core", 1)], corpus=["api"], api=True, mc=None),
}

EXTRA_COV = {}

TIER = {"quick": dict(unit=12, mc_timeout=240), "thorough": dict(unit=400, mc_timeout=1500)}


def gen_scenarios(prop, tier, seed, workdir):
    spec = PROPS[prop]
    unit = TIER[tier]["unit"]
    scs = corpus(spec.get("corpus", []))
    for fam, w in spec["fams"]:
        for i in range(unit * w):
            scs.append(FAMILIES[fam](seed, i, tier))
    for g in spec.get("gen", []):
        cfgname, voters, depth = g[0], g[1], g[2]
        scs += gen_spec_behaviours(cfgname, workdir, unit * 4, depth, seed, voters, g[3] if len(g) > 3 else ())
    if spec.get("api"):
        a, extra = fam_api_all(seed, tier, workdir)
        scs += a
        EXTRA_COV.update(extra)
    if spec.get("hae"):
        a, extra = fam_hae_all(seed, tier)
        scs += a
        EXTRA_COV.update(extra)
    if spec.get("healstates"):
        a, extra = fam_healstates_all(seed, tier)
        scs += a
        EXTRA_COV.update(extra)
    if spec.get("snaprace"):
        a = snaprace_scenarios()
        scs += a
        EXTRA_COV.update({"snapshot_race_interleavings": len(a)})
    if spec.get("crashpoints"):
        a, extra = crashpoint_scenarios(workdir, seed, tier)
        scs += a
        EXTRA_COV.update(extra)
    if spec.get("hrv"):
        a, extra = fam_hrv_all(seed, tier)
        scs += a
        EXTRA_COV.update(extra)
    return scs


def run_check(prop, tier, seed, keep=False):
    if PROPS[prop].get("storage"):
        return run_storage_check(prop, tier, seed, keep)
    t0 = time.time()
    spec = PROPS[prop]
    workdir = os.path.join(OUT, "%s-%s-%d" % (prop, tier, seed))
    if os.path.exists(workdir):
        import shutil
        shutil.rmtree(workdir)
    os.makedirs(workdir)
    driver.build_harness()
    from concurrent.futures import ThreadPoolExecutor
    mc_future = None
    mcname = spec.get("mc_deep") if tier == "thorough" and spec.get("mc_deep") else spec.get("mc")
    if mcname and os.path.exists(os.path.join(driver.SPEC, mcname + ".cfg")) and not os.environ.get("VERIF_NOMC"):
        mcmod = spec.get("mc_module", "MC_core3")
        if tier == "thorough" and spec.get("mc_deep") and spec.get("mc_deep_module"):
            mcmod = spec["mc_deep_module"]
        mc_pool = ThreadPoolExecutor(max_workers=1)
        mc_future = mc_pool.submit(driver.model_check, mcname, workdir, TIER[tier]["mc_timeout"], max(2, driver.NPROC // 2), ("Raft.tla", "RaftTimed.tla"), None, 0, mcmod)
    scs = gen_scenarios(prop, tier, seed, workdir)
    by_name = {s["name"]: s for s in scs}
    traces, aborts, leaks = driver.run_jobs(scs, workdir, seed)
    t_run = time.time() - t0
    judged = set(spec.get("monitor_props", [prop]))
    res = driver.run_monitors(traces, judged, workdir)
    t_mon = time.time() - t0 - t_run
    for r in res:
        if not r["accepted"]:
            raise NoVerdict("TLC did not accept trace %s as fully consumed:\n%s" % (r["trace"], r["out"][-2500:]))
    bad = [b for r in res for b in r["bad"]]
    recorder = [b for b in bad if b["p"] == "X"]
    warns = [b for b in bad if b["p"] == "W"]
    mine = [b for b in bad if b["p"] in judged]
    hits, rest, tags = driver.split_known(prop, mine)
    for kf, hs in sorted(hits.items()):
        log("KNOWN-FINDING: property=%s %s (%d occurrence(s) in this run; %s)" % (prop, tags[kf]["what"], len(hs), kf))
    # scenario statistics
    rule_text, rule = RULES.get(prop, ("every scenario", lambda s: True))
    nontrivial, total_events, nscen = set(), 0, 0
    samples = []
    spec_tot = {"steps": 0, "matched": 0, "drift": 0, "behaviours": 0, "first_drifts": []}
    for t in traces:
        cur, evs = None, []

        def flush():
            nonlocal nscen, total_events
            if cur is None:
                return
            nscen += 1
            total_events += len(evs)
            st = scen_stats(evs)
            if st["spec_steps"] and evs[0].get("attack"):
                spec_tot["attacks"] = spec_tot.get("attacks", 0) + 1
            elif st["spec_steps"]:
                spec_tot["behaviours"] += 1
                spec_tot["steps"] += st["spec_steps"]
                spec_tot["matched"] += st["spec_matched"]
                spec_tot["drift"] += st["spec_drift"]
                if st["spec_drift"] and len(spec_tot["first_drifts"]) < 3:
                    spec_tot["first_drifts"] += [{"scenario": cur, "at": e["k"], "action": e["a"], "diffs": e["diffs"]} for e in evs if e["ev"] == "drift"][:1]
            if rule(st):
                # distinct by schedule digest
                dig = hashlib.sha256(json.dumps([e.get("s") for e in evs if e["ev"] == "step"], sort_keys=True).encode()).hexdigest()[:16]
                nontrivial.add(dig)
                if len(samples) < 2:
                    samples.append({"scenario": cur, "voters": by_name.get(cur, {}).get("voters"),
                                    "first_stimuli": [e["s"] for e in evs if e["ev"] == "step"][:12],
                                    "events": len(evs), "leaderships": sorted(list(st["leaders"])), "crashes": st["crashes"]})
        for e in driver.read_trace(t):
            if e["ev"] == "scenario":
                flush()
                cur, evs = e["sc"], []
            evs.append(e)
        flush()
    # design-level model checking (started before the scenarios, joined here)
    mc = mc_future.result() if mc_future else None
    if mc and mc["violated"]:
        raise NoVerdict("design-level configuration %s reports a counterexample on the unchanged specification; "
                        "it must be replayed on the code before it means anything:\n%s" % (mc["cfg"], mc["out"][-3000:]))
    # verdict
    seen, viol = set(), []
    for b in rest:
        key = (b["sc"], b["c"])
        if key in seen:
            continue
        seen.add(key)
        viol.append(b)
    paths = []
    for b in viol[:20]:
        p = driver.write_replay(prop, b, by_name, workdir)
        paths.append(p)
        log("VIOLATION property=%s replay=%s   # %s in scenario %s: %s" % (prop, p, b["c"], b["sc"], b["d"][:200]))
    cov = {
        "evaluations": nscen,
        "distinct_nontrivial": len(nontrivial),
        "rule": "scenarios = committed corpus schedules + seeded adversary runs of families %s on real nodes; non-trivial: %s; distinct by stimulus sequence" % (
            [f for f, _ in spec["fams"]], rule_text),
        "samples": samples or [{"note": "no non-trivial scenario in this run"}],
        "traces_validated_against_impl": nscen,
        "events_validated": total_events,
        "states": (mc or {}).get("states", 0),
        "transitions": (mc or {}).get("transitions", 0),
        "mc_config": (mc or {}).get("cfg"),
        "mc_finished": (mc or {}).get("finished"),
        "exhaustive": bool(mc and mc["finished"]),
        "monitor_states": sum(r["states"] for r in res),
        "aborts": len(aborts), "leaks": len(leaks),
        "recorder_mismatches": len(recorder), "warnings": len(warns),
        "known_finding_hits": {k: len(v) for k, v in hits.items()},
        "spec_behaviours_replayed": spec_tot["behaviours"], "spec_steps_compared": spec_tot["steps"],
        "spec_steps_matched": spec_tot["matched"], "conformance_drift_steps": spec_tot["drift"],
        "conformance_first_drifts": spec_tot["first_drifts"],
        "attack_schedules_replayed": spec_tot.get("attacks", 0),
        "checker_cmd": "tlc Monitors.tla (Props={%s}) over recorded traces; tlc %s" % (prop, spec.get("mc")),
    }
    cov.update(EXTRA_COV)
    if not cov["states"] and EXTRA_COV.get("api_spec_states"):
        cov["states"], cov["transitions"] = EXTRA_COV["api_spec_states"], EXTRA_COV["api_spec_states"] - 3
        cov["mc_config"], cov["exhaustive"] = "Api.tla (call programs up to the tier's length)", False
    if not cov["states"]:
        cov.pop("states"), cov.pop("transitions")
    doc = {"property_id": prop, "tier": tier, "seed": seed, "level": "model_checking", "coverage": cov,
           "assumptions": ["verdicts come from the TLA+ monitor clauses evaluated by TLC on executions recorded from the real code",
                           "process-crash model (a returned write is durable)",
                           "the harness state machine, transport and storage wrappers are trusted"],
           "wall_s": round(time.time() - t0, 1), "violations": len(viol)}
    driver.write_evidence(prop, doc)
    log("property=%s tier=%s seed=%d scenarios=%d nontrivial=%d events=%d run=%.0fs monitors=%.0fs mc=%s violations=%d" % (
        prop, tier, seed, nscen, len(nontrivial), total_events, t_run, t_mon,
        ("%d states%s" % (mc["states"], "" if mc["finished"] else " (time-boxed)")) if mc else "none", len(viol)))
    if spec_tot["drift"]:
        log("CONFORMANCE-DRIFT property-family=%s: %d of %d replayed specification steps left the real nodes in a state other than Raft.tla predicts; first: %s" % (
            prop, spec_tot["drift"], spec_tot["steps"], json.dumps(spec_tot["first_drifts"][:1])[:600]))
    if recorder:
        b = recorder[0]
        log("RECORDER-MISMATCH %s in %s line %d: %s" % (b["c"], b["sc"], b["line"], b["d"][:200]))
    if not keep and not viol:
        import shutil
        shutil.rmtree(workdir, ignore_errors=True)
    if viol:
        return 1
    if recorder:
        return 2
    return 0


# ---- storage sweeps (C12, C13) ---------------------------------------------------------------

def log_program(rng, nops):
    """a well-formed program over the Log API (indices continue, boundaries exist)"""
    prog = [{"op": "open"}]
    base, last, term, is_open = 0, 0, 1, True
    for _ in range(nops):
        if not is_open:
            prog.append({"op": "open"})
            is_open = True
            continue
        c = rng.choice(["append", "append", "append2", "truncate", "compact", "discard", "close", "append"])
        if c in ("append", "append2"):
            n = 1 if c == "append" else rng.choice([2, 3])
            term += rng.choice([0, 0, 1])
            ents = [{"i": last + j + 1, "t": term, "k": rng.choice([0, 1, 1, 2]), "n": rng.choice([0, 1, 7, 300, 5000])} for j in range(n)]
            prog.append({"op": "append", "ents": ents})
            last += n
        elif c == "truncate" and last > base:
            i = rng.randint(base + 1, last)
            prog.append({"op": "truncate", "i": i})
            last = i - 1
        elif c == "compact" and last > base:
            i = rng.randint(base + 1, last)
            prog.append({"op": "compact", "i": i})
            base = i
        elif c == "discard":
            i = last + rng.choice([0, 3])
            term += 1
            prog.append({"op": "discard", "i": i, "t": term})
            base = last = i
        elif c == "close":
            prog.append({"op": "close"})
            is_open = False
    return prog


def store_program(rng, nops, maxsnaps):
    prog, idx = [], 0
    for _ in range(nops):
        c = rng.choice(["set", "set", "snap", "snap", "snapd"])
        if c == "set":
            prog.append({"op": "set", "t": rng.randint(0, 9), "vote": rng.choice(["", "a", "node-b"])})
        else:
            idx += rng.randint(1, 3)
            prog.append({"op": "snap_write" if c == "snap" else "snap_discard", "i": idx, "t": rng.randint(1, 3),
                         "size": rng.choice([0, 10, 32768, 32769, 70000]), "cfg": "cfg%d" % idx})
    return prog


def enumerated_log_programs(workdir, maxops):
    """every program TLC enumerates from LogProg.tla, as concrete operation lists"""
    import subprocess
    d = os.path.join(workdir, "logprog")
    driver.stage_spec(d, ["StoreAbs.tla", "LogProg.tla"])
    with open(os.path.join(d, "LogProg.cfg"), "w") as f:
        f.write("CONSTANTS MaxOps = %d\nSPECIFICATION Spec\nINVARIANT Emit\nCHECK_DEADLOCK FALSE\n" % maxops)
    r = subprocess.run(driver.tlc_cmd(["-Xmx3g"]) + ["-workers", "2", "-metadir", os.path.join(d, "md"), "-config", "LogProg.cfg", "LogProg.tla"],
                       cwd=d, capture_output=True, text=True, timeout=1200)
    progs = []
    for line in r.stdout.splitlines():
        line = line.strip().strip('"')
        if not line.startswith("PROG|"):
            continue
        names = line.split("|", 1)[1].split(",")
        base, last, term, ops = 0, 0, 1, [{"op": "open"}]
        for nm in names:
            if nm[0] == "a":
                k = int(nm[1:])
                ops.append({"op": "append", "ents": [{"i": last + j + 1, "t": term, "k": 1, "n": 3 + ((last + j + 1) % 4) * 5} for j in range(k)]})
                last += k
                term += 1
            elif nm[0] == "t":
                i = int(nm[1:])
                ops.append({"op": "truncate", "i": i})
                last = i - 1
            elif nm[0] == "c":
                i = int(nm[1:])
                ops.append({"op": "compact", "i": i})
                base = i
            elif nm[0] == "d":
                ops.append({"op": "discard", "i": last + 1, "t": term})
                base = last = last + 1
                term += 1
            elif nm[0] == "r":
                ops += [{"op": "close"}, {"op": "open"}]
        progs.append(("enum-" + "".join(names), ops))
    ms = __import__("re").search(r"(\d+) distinct states found", r.stdout)
    return progs, (int(ms.group(1)) if ms else 0)


def run_storage_check(prop, tier, seed, keep=False):
    import storage, shutil
    from concurrent.futures import ThreadPoolExecutor
    t0 = time.time()
    workdir = os.path.join(OUT, "%s-%s-%d" % (prop, tier, seed))
    shutil.rmtree(workdir, ignore_errors=True)
    os.makedirs(workdir)
    storage.build_driver()
    nprog = 32 if tier == "quick" else 1200
    progs = []
    for i in range(nprog):
        rng = random.Random(sseed(seed, prop, i))
        if prop == "C12":
            progs.append(("log-%d-%d" % (seed, i), log_program(rng, rng.choice([2, 3, 4, 5, 8] if tier == "quick" else [3, 5, 8, 12])),
                          [{"op": "open"}, {"op": "append_next"}, {"op": "close"}]))
        else:
            many = (i % 8 == 0)
            progs.append(("store-%d-%d" % (seed, i), store_program(rng, (12 if tier == "quick" else 42) if many else rng.choice([2, 3, 5]), 40),
                          [{"op": "set", "t": 11, "vote": "post"}, {"op": "snap_write", "i": 900 + i, "t": 9, "size": 5, "cfg": "post"}]))
    # committed regression programs
    for p in sorted(glob.glob(os.path.join(ROOT, "corpus", "storage-" + prop, "*.json"))):
        with open(p) as f:
            d = json.load(f)
        progs.append(("corpus-" + os.path.basename(p)[:-5], d["prog"], d["post"]))

    def one(k):
        name, prog, post = progs[k]
        tr = os.path.join(workdir, "trace-%03d.ndjson" % (k % driver.NPROC))
        return storage.sweep_program(name, prog, post, tr + ".%d" % k, rng=random.Random(sseed(seed, "pfx", k)))
    with ThreadPoolExecutor(max_workers=driver.NPROC) as ex:
        stats = list(ex.map(one, range(len(progs))))
    # every program TLC enumerates from LogProg.tla, run to completion and reopened (no kill)
    enum, enum_states = [], 0
    if prop == "C12":
        enum, enum_states = enumerated_log_programs(workdir, 4 if tier == "quick" else 5)
        post = [{"op": "open"}, {"op": "append_next"}, {"op": "close"}]

        def plain(k):
            name, prog = enum[k]
            tr = os.path.join(workdir, "trace-%03d.ndjson" % (k % driver.NPROC))
            return storage.run_plain(name, prog, post, tr + ".e%d" % k)
        with ThreadPoolExecutor(max_workers=driver.NPROC) as ex:
            list(ex.map(plain, range(len(enum))))
        for n, pr in enum:
            progs.append((n, pr, post))
    # concatenate per-thread pieces into one trace per worker slot
    traces = []
    for w in range(driver.NPROC):
        parts = sorted(glob.glob(os.path.join(workdir, "trace-%03d.ndjson.*" % w)))
        if not parts:
            continue
        tr = os.path.join(workdir, "trace-%03d.ndjson" % w)
        with open(tr, "w") as out:
            for p in parts:
                out.write(open(p).read())
                os.remove(p)
        traces.append(tr)
    t_run = time.time() - t0
    with ThreadPoolExecutor(max_workers=max(1, driver.NPROC // 2)) as ex:
        res = list(ex.map(lambda t: driver.run_monitor(t, {prop}, workdir, module="StoreMon", extra_modules=["StoreAbs.tla"]), traces))
    for r in res:
        if not r["accepted"]:
            raise NoVerdict("TLC did not accept trace %s as fully consumed:\n%s" % (r["trace"], r["out"][-2500:]))
    mc = None
    if prop == "C12" and not os.environ.get("VERIF_NOMC"):
        mc = driver.model_check("MC_logstore" if tier == "quick" else "MC_logstore_deep", workdir, TIER[tier]["mc_timeout"], driver.NPROC // 2,
                                ("StoreAbs.tla",), None, 0, "LogStore")
    if prop == "C13" and not os.environ.get("VERIF_NOMC"):
        mc = driver.model_check("MC_filestores", workdir, TIER[tier]["mc_timeout"], driver.NPROC // 2, ("StoreAbs.tla",), None, 0, "FileStores")
    if mc and mc["violated"]:
        raise NoVerdict("design-level configuration %s reports a counterexample:\n%s" % (mc["cfg"], mc["out"][-3000:]))
    bad = [b for r in res for b in r["bad"] if b["p"] == prop]
    hits, rest, tags = driver.split_known(prop, bad)
    for kf, hs in sorted(hits.items()):
        log("KNOWN-FINDING: property=%s %s (%d occurrence(s) in this run; %s)" % (prop, tags[kf]["what"], len(hs), kf))
    seen, viol = set(), []
    for b in rest:
        key = (b["sc"].rsplit("-k", 1)[0], b["c"])
        if key not in seen:
            seen.add(key)
            viol.append(b)
    prog_by = {n: {"prog": p, "post": q} for n, p, q in progs}
    for b in viol[:20]:
        path = driver.write_replay(prop, b, {b["sc"]: prog_by.get(b["sc"].rsplit("-k", 1)[0])}, workdir)
        log("VIOLATION property=%s replay=%s   # %s in %s: %s" % (prop, path, b["c"], b["sc"], b["d"][:200]))
    kills = sum(s["kills"] for s in stats)
    prefixes = sum(s["prefix_images"] for s in stats)
    cov = {"evaluations": kills + prefixes + len(enum), "distinct_nontrivial": kills + prefixes + len(enum),
           "rule": "one evaluation = one crash image of a program run through the public storage API: a real SIGKILL on entry to each storage "
                   "system call (strace fault injection), plus every sampled byte prefix of an interrupted log append; each image is reopened, "
                   "extended and reopened again; all are distinct (program, kill point, prefix length); every one is non-trivial (a crash happened)",
           "samples": [{"program": progs[0][1], "post": progs[0][2], "kill_points": stats[0]["syscalls"], "prefix_images": stats[0]["prefix_images"]}],
           "programs": len(progs), "enumerated_programs_run_to_completion": len(enum), "logprog_spec_states": enum_states, "kill_points": kills, "byte_prefix_images": prefixes, "reopens": sum(s["reopens"] for s in stats),
           "traces_validated_against_impl": kills + prefixes, "monitor_states": sum(r["states"] for r in res),
           "states": (mc or {}).get("states", 0), "transitions": (mc or {}).get("transitions", 0), "mc_config": (mc or {}).get("cfg"),
           "mc_finished": (mc or {}).get("finished"), "exhaustive": False,
           "checker_cmd": "tlc StoreMon.tla over recorded directory histories; tlc LogStore.tla / FileStores.tla"}
    if not cov["states"]:
        cov.pop("states"), cov.pop("transitions")
    doc = {"property_id": prop, "tier": tier, "seed": seed, "level": "model_checking", "coverage": cov,
           "assumptions": ["process-crash model: data of a write(2) that returned survives SIGKILL (no power loss)",
                           "crash points = entry of every storage system call of the driver's main thread + byte prefixes of log appends",
                           "strace fault injection delivers SIGKILL before the system call executes"],
           "wall_s": round(time.time() - t0, 1), "violations": len(viol)}
    driver.write_evidence(prop, doc)
    log("property=%s tier=%s seed=%d programs=%d kill_points=%d byte_prefix_images=%d run=%.0fs mc=%s violations=%d" % (
        prop, tier, seed, len(progs), kills, prefixes, t_run, ("%d states" % mc["states"]) if mc else "none", len(viol)))
    if not keep and not viol:
        shutil.rmtree(workdir, ignore_errors=True)
    return 1 if viol else 0


def replay(prop, path):
    """Re-validate the recorded trace of a replay file with the monitors (invariant mode, so
    that TLC prints the counterexample), then re-execute its schedule on the current tree."""
    with open(path) as f:
        doc = json.load(f)
    workdir = os.path.join(OUT, "replay-" + prop)
    import shutil
    shutil.rmtree(workdir, ignore_errors=True)
    os.makedirs(workdir)
    trace = os.path.join(workdir, "recorded.ndjson")
    with open(trace, "w") as f:
        for e in doc["trace"]:
            f.write(json.dumps(e) + "\n")
    r = driver.run_monitor(trace, {prop}, workdir, invariant=True)
    log("recorded trace: %d monitor rejection(s)" % len([b for b in r["bad"] if b["p"] == prop]))
    for b in r["bad"]:
        log("  ", b["p"], b["c"], "line", b["line"], b["d"][:300])
    rc = 1 if any(b["p"] == prop for b in r["bad"]) else 0
    sc = doc.get("scenario")
    if sc:
        driver.build_harness()
        # turn the recorded stimuli into a script (the random adversary's choices are in the trace)
        stim = [e["s"] for e in doc["trace"] if e["ev"] == "step"]
        sc2 = dict(sc)
        sc2.pop("random", None)
        sc2["stimuli"] = stim
        sc2["name"] = "replay"
        traces, aborts, leaks = driver.run_jobs([sc2], workdir, 1)
        res = driver.run_monitors(traces, {prop}, workdir)
        n = sum(1 for x in res for b in x["bad"] if b["p"] == prop)
        log("re-execution on the current tree: %d monitor rejection(s)" % n)
        if n:
            rc = 1
    return rc
