"""Storage crash sweeps (C12, C13): run operation programs through the public storage API in
a driver process, kill it with a real SIGKILL at every storage system call (strace fault
injection), add every byte prefix of an interrupted log append, reopen, and record the
history of each directory as one trace for StoreMon.tla."""
import json, os, re, shutil, subprocess, tempfile, hashlib
import driver

SYSCALLS = "write,pwrite64,ftruncate,fsync,fdatasync,rename,renameat,renameat2,unlink,unlinkat,mkdir,mkdirat,openat"
DRV = os.path.join(driver.BIN, "storedrv")


def build_driver():
    os.makedirs(driver.BIN, exist_ok=True)
    r = subprocess.run([driver.GO, "build", "-o", DRV, "./cmd/storedrv"], cwd=os.path.join(driver.ROOT, "harness"),
                       env=driver.GOENV, capture_output=True, text=True)
    if r.returncode != 0:
        raise driver.NoVerdict("storage driver does not build against /repo:\n" + (r.stdout + r.stderr)[-2000:])


def scratch():
    base = "/dev/shm" if os.path.isdir("/dev/shm") else None
    return tempfile.mkdtemp(prefix="verifs-", dir=base)


def parse_markers(out):
    """driver stdout -> events"""
    evs, finished = [], False
    for line in out.splitlines():
        if line.startswith("begin "):
            _, k, o = line.split(" ", 2)
            evs.append({"ev": "begin", "k": int(k), "o": json.loads(o)})
        elif line.startswith("done "):
            evs.append({"ev": "done", "k": int(line.split()[1])})
        elif line.startswith("error "):
            _, k, msg = line.split(" ", 2)
            evs.append({"ev": "error", "k": int(k), "msg": msg[:200]})
        elif line.startswith("RECOVERED "):
            evs.append({"ev": "reopen", "rec": json.loads(line[len("RECOVERED "):])})
        elif line.startswith("finished"):
            finished = True
    return evs, finished


def run_killed(prog_file, d, point):
    """run the program in d; point = (syscall name, ordinal of that syscall in the main thread):
    SIGKILL on entry to it. point = None: no kill."""
    cmd = [DRV, "run", d, prog_file]
    if point:
        cmd = ["strace", "-f", "-o", "/dev/null", "-e", "trace=" + point[0],
               "-e", "inject=%s:signal=SIGKILL:when=%d" % point] + cmd
    r = subprocess.run(cmd, capture_output=True, text=True, timeout=60, env=dict(os.environ, GOMAXPROCS="1"))
    return parse_markers(r.stdout)


def kill_points(prog_file):
    """reference run: the storage system calls the main thread makes after the program starts,
    in order, each as (name, ordinal among the calls of that name since process start) --
    strace counts `when=' per system call name and per thread."""
    d = scratch()
    try:
        log = os.path.join(d, "strace.log")
        subprocess.run(["strace", "-f", "-o", log, "-e", "trace=" + SYSCALLS, DRV, "run", os.path.join(d, "data"), prog_file],
                       capture_output=True, text=True, timeout=60, env=dict(os.environ, GOMAXPROCS="1"))
        main_pid, seen, counts, pts = None, False, {}, []
        for line in open(log):
            m = re.match(r"^(\d+)\s+(\w+)\(", line)
            if not m:
                continue
            if main_pid is None:
                main_pid = m.group(1)
            if m.group(1) != main_pid:
                continue
            name = m.group(2)
            counts[name] = counts.get(name, 0) + 1
            if not seen and 'write(1, "begin 0' in line:
                seen = True
                continue
            if seen and not (name == "write" and line.split("(", 1)[1].startswith("1,")):
                pts.append((name, counts[name]))
        return pts
    finally:
        shutil.rmtree(d, ignore_errors=True)


def reopen(d, post_file):
    r = subprocess.run([DRV, "reopen", d, post_file], capture_output=True, text=True, timeout=60)
    evs, fin = parse_markers(r.stdout)
    if r.returncode != 0 and not evs:
        evs = [{"ev": "reopen", "rec": {"log_err": "driver died: " + (r.stderr or "")[-200:], "state_err": "driver died", "snap_err": "driver died"}}]
    return evs


def file_sizes(d):
    out = {}
    for root, _, files in os.walk(d):
        for f in files:
            p = os.path.join(root, f)
            out[os.path.relpath(p, d)] = os.path.getsize(p)
    return out


def sweep_program(name, prog, post, out_trace, max_prefix=6, rng=None):
    """all kill points of one program; returns statistics"""
    work = scratch()
    stats = {"kills": 0, "prefix_images": 0, "reopens": 0}
    seq = [0]
    try:
        pf, qf = os.path.join(work, "prog.json"), os.path.join(work, "post.json")
        json.dump(prog, open(pf, "w"))
        json.dump(post, open(qf, "w"))
        pts = kill_points(pf)
        lines = []

        def emit(sc, evs):
            for e in evs:
                seq[0] += 1
                e = dict(e, sc=sc, seq=seq[0])
                lines.append(json.dumps(e))

        prev_sizes, prev_dir, prev_evs = None, None, None
        for n, pt in enumerate(pts + [None]):
            d = os.path.join(work, "k%d" % n)
            evs, finished = run_killed(pf, d, pt)
            sizes = file_sizes(d) if os.path.isdir(d) else {}
            # byte prefixes of an interrupted log append: log.bin grew between two consecutive kill points
            if prev_sizes is not None and os.path.isdir(d):
                a, b = prev_sizes.get("log/log.bin", 0), sizes.get("log/log.bin", 0)
                if b - a > 1:
                    mids = list(range(a + 1, b))
                    if len(mids) > max_prefix:
                        mids = sorted(set([a + 1, a + 2, a + 3, b - 1] + (rng.sample(mids, max_prefix - 4) if rng else [])))
                    for m in mids:
                        pd = os.path.join(work, "k%d-p%d" % (n, m))
                        shutil.copytree(d, pd)
                        with open(os.path.join(pd, "log/log.bin"), "r+b") as f:
                            f.truncate(m)
                        sc = "%s-k%d-p%d" % (name, n, m)
                        # history: what the previous run saw (the write that grew the file had not returned there)
                        emit(sc, [{"ev": "scenario", "prog": name}] + prev_evs + [{"ev": "crash", "at": n - 1, "bytes": m - a}] + reopen(pd, qf))
                        stats["prefix_images"] += 1
                        stats["reopens"] += 2
                        shutil.rmtree(pd, ignore_errors=True)
            sc = "%s-k%d" % (name, n)
            if os.path.isdir(d):
                emit(sc, [{"ev": "scenario", "prog": name}] + evs + ([] if finished else [{"ev": "crash", "at": n, "sys": pt[0] if pt else ""}]) + reopen(d, qf))
                stats["kills"] += 0 if finished else 1
                stats["reopens"] += 2
            if prev_dir:
                shutil.rmtree(prev_dir, ignore_errors=True)
            prev_sizes, prev_dir, prev_evs = sizes, d, evs
        with open(out_trace, "a") as f:
            f.write("\n".join(lines) + "\n")
        stats["syscalls"] = len(pts)
        return stats
    finally:
        shutil.rmtree(work, ignore_errors=True)


def run_plain(name, prog, post, out_trace):
    """one program to completion (no kill), then reopen, extend, reopen"""
    work = scratch()
    try:
        pf, qf = os.path.join(work, "prog.json"), os.path.join(work, "post.json")
        json.dump(prog, open(pf, "w"))
        json.dump(post, open(qf, "w"))
        d = os.path.join(work, "d")
        evs, finished = run_killed(pf, d, None)
        lines = []
        seq = 0
        for e in [{"ev": "scenario", "prog": name}] + evs + reopen(d, qf):
            seq += 1
            lines.append(json.dumps(dict(e, sc=name, seq=seq)))
        with open(out_trace, "a") as f:
            f.write("\n".join(lines) + "\n")
        return {"finished": finished}
    finally:
        shutil.rmtree(work, ignore_errors=True)
